#!/usr/bin/env python3
"""Regenerate /verif/MANIFEST.json from the harness registry (claimed = properties with registered quick harnesses and an
entry in CLAIMS below; everything else goes to not_applicable with its reason)."""
import json, os, subprocess, sys

VERIF = os.path.dirname(os.path.dirname(os.path.abspath(__file__)))
sys.path.insert(0, os.path.join(VERIF, "harness"))
import registry  # noqa: E402

TECH = "bounded model checking of the real Rust code: Kani 0.68 proof harnesses (kani::any inputs) -> CBMC 6.11 symbolic execution -> CaDiCaL; counterexamples replayed natively"

CLAIMS = {
    "C01": ("component obligations only: (K1) write-queue visibility - the real Keeper/PieceRef under a symbolic schedule of enqueue / write-completion, "
            "(L1/L2) the real Store::load lookup order and decoded-key comparison over a harness Engine answering arbitrary (key,value)/miss/throttle/error, "
            "(S1) disk-only inserts drop the in-memory copy. The end-to-end history statement (flusher, reclaim, recovery, reopen) is NOT decided.",
            "4.C01"),
    "C03": ("decode layer over arbitrary / damaged bytes: EntryHeader::read (all 2^288 inputs), EntryDeserializer (arbitrary buffer, all u32 lengths, any checksum), "
            "BlobIndexReader and BlockRecoverRunner/BlockScanner over images written by the real writer and then damaged, Tombstone::read, Store::load's key check. "
            "Checksum is a stand-in fold; 'a damaged page whose xxhash64 still matches' is outside the claim.", "4.C03"),
    "C05": ("single-shard accounting: for concrete small pre-states built through the API, ONE operation with symbolic key / weight / value keeps usage()==sum of findable weights, "
            "entries()==count, evicts only while usage+weight>capacity, ends within capacity unless pinned / oversized; clear() zeroes; shard capacities add up (all usize totals, 1..4 shards).",
            "4.C05"),
    "C07": ("one splitter step from an ARBITRARY valid split context (inductive invariant asserted on the post-state) for batches of 1..3 entries with symbolic sizes: alignment, no overlap, "
            "nothing lost/duplicated, recorded address == where the bytes go; the sealed index page read by the real reader lists exactly the blob; scanner step lands on the blob end.",
            "4.C07"),
    "C08": ("Code round trips for every numeric type (all bit patterns), bool, String/Vec<u8>/Bytes at concrete lengths 0..8 with symbolic contents; too-small destinations give "
            "BufferSizeLimit, never partial success; entry framing (header write/read, serializer/deserializer, recorded lengths). Compression::None only.", "4.C08"),
    "C10": ("the tombstone log's own arithmetic: slot addressing (all pages<=2^20, slots<2^40), tail location after reopen with the newest tombstone at positions in page 0, 1, 2 and across "
            "partitions (contents symbolic), open->append->reopen cycle on a harness device. Recovery merge / engine integration is outside.", "4.C10"),
    "C11": ("close-flag identity: the flag handed to the fetch leader is the one take()/fetch_or_take() set, so an insert during a fetch stops the fetch task (real InflightManager over "
            "portable-group hashbrown). The full RawFetch schedule is in the thorough tier only if it discharges.", "4.C11"),
    "C12": ("decision points only: on-disk / filtered advice is not retained in memory and is offered to the pipe exactly once at last drop; in-memory advice is retained and not piped at insert; "
            "Store::enqueue admits iff forced or the admission filter admits, otherwise deletes. Device writes, policies and close are NOT decided.", "4.C12"),
    "C13": ("single-threaded conservation over one-step harnesses with a recording listener and pipe: every entry that stops being findable produced exactly one on_leave with the matching reason; "
            "Evict (incl. evict_all and last drop of a disk-only entry) is piped exactly once, Replace/Remove/Clear never.", "4.C13"),
    "C14": ("differential, symbolic inputs: the real Fifo / Lru / Sieve / S3Fifo containers against an executable reference of the documented rule, lock-step equality of every victim "
            "and of the final drain order; 3 records, <=3 (quick) / <=6 (thorough) symbolic operations. w-TinyLFU is not covered.", "4.C14"),
    "C16": ("single-thread re-entrancy: listener, weighter, filter and the value destructor call back (get/remove/insert) into the same single-shard cache during insert / remove / clear / "
            "evict_all / disk-only drop; parking_lot slow paths are stubbed to panic, so any lock requested while held is a solver-visible failure. Multi-thread deadlocks are outside.", "4.C16"),
    "C17": ("full 64-bit collisions (harness hasher): in-flight table, write queue (Keeper) and Store::load's disk-answer key check keep colliding keys apart; memory index via the "
            "RawCache harnesses whose keys 16,17 collide. HashTableIndexer itself: thorough tier.", "4.C17"),
    "C18": ("single-threaded: handle key/value/weight unchanged across the step, refs()==live handles, is_outdated() iff a lookup no longer returns the record, LRU never evicts a "
            "looked-up-and-held entry, capacity re-established after the last handle drop.", "4.C18"),
}

NA = {
    "C02": "linearizability under thread interleavings: Kani/CBMC execute Rust sequentially (no thread model); splitting the real functions at interior points would be a hand-written model, not the real code (DESIGN 4.C02)",
    "C04": "crash points are prefixes of the write sequence emitted by the running flusher / tombstone / reclaimer tokio tasks and the recovery merge sits behind Spawner: not executable by the solver (DESIGN 4.C04); reachable recovery pieces are decided under C03/C07 and not relabelled",
    "C06": "the fetch state machine (RawFetch::poll + InflightManager + mea oneshot + boxed futures) did not discharge at any useful schedule length within the thorough cap (DESIGN 4.C06); the close-flag obligation is kept under C11",
    "C09": "block hand-out / reclaim / writer liveness are properties of BlockManager + Reclaimer + Flusher running concurrently on tokio (own a Spawner; liveness has no bounded sequential safety form) (DESIGN 4.C09)",
    "C15": "close = memory.flush().await + storage.close() + reopen over Store/engine/device, all behind Spawner/tokio (DESIGN 4.C15); the eviction half of flush is decided under C13",
}


def main():
    byp = registry.by_property()
    checks = []
    na = []
    props = [json.loads(l)["id"] for l in open(os.path.join(VERIF, "properties.jsonl"))]
    for p in props:
        quick = [h for h in byp.get(p, []) if "quick" in h["tiers"]]
        if p in CLAIMS and quick:
            text, ref = CLAIMS[p]
            checks.append({
                "property_id": p,
                "quick_cmd": f"bin/check {p} --tier quick",
                "thorough_cmd": f"bin/check {p} --tier thorough",
                "evidence_file": f"/verif/evidence/{p}.json",
                "replay_cmd_template": f"bin/check {p} --replay {{path}}",
                "engine": "kani-cbmc",
                "level_claimed": {"category": "model_checking", "text": text, "design_ref": ref},
                "level_note": "Bounded: every harness states its bounds (evidence coverage.samples[*].bounds); nothing is claimed outside them. Trusted base: rustc MIR -> kani-compiler -> CBMC -> CaDiCaL, "
                              "the stub set listed per harness (logging off, lock slow paths panic, no-op metrics, deallocation is a no-op, checksum stand-in where stated), portable-group hashbrown where stated. "
                              "Unwinding assertions ON; cover witnesses must be satisfied; counterexamples are replayed natively before a VIOLATION is printed; timeouts/OOM are exit 2, never success.",
                "technique": TECH,
            })
        else:
            na.append({"property_id": p, "reason": NA.get(p, "check not built yet (work in progress)")})
    hooks_commits = subprocess.run(["git", "-C", "/repo", "log", "--format=%h", "--grep=^verif:"], capture_output=True, text=True).stdout.split()
    m = {
        "version": 1,
        "setup_cmd": "bin/setup",
        "hooks": {
            "guard": "cfg(kani)",
            "enable": "cargo kani sets --cfg kani; harness modules are attached by `#[cfg(kani)] #[path=\"/verif/harness/...\"] mod verif_kani;` lines at the end of the files whose private items they need",
            "baseline_off_cmd": "cd /repo && (cargo nextest run --workspace --no-fail-fast --test-threads 8 --offline || cargo test --workspace --no-fail-fast --offline)",
            "source_commits": hooks_commits,
            "add_only": False,
        },
        "engines": [{"name": "kani-cbmc", "path": "/verif/bin/check", "serves_properties": [c["property_id"] for c in checks],
                     "kind_free_text": "Kani 0.68 / CBMC 6.11 / CaDiCaL bounded model checking of harnesses compiled inside the real crates; registry in /verif/harness/registry.py"}],
        "checks": checks,
        "notes": "hooks are add-only except ONE edited line in /repo/Cargo.toml (check-cfg list gains 'cfg(kani)' so normal builds stay warning-free) and `mod verif_kani` -> `pub(crate) mod verif_kani` "
                 "in a hook line itself; hence add_only=false. fix: commits in /repo are listed in /verif/known_findings.json. exit codes of bin/check: 0 held, 1 reproduced violation, 2 inconclusive.",
        "not_applicable": na,
    }
    json.dump(m, open(os.path.join(VERIF, "MANIFEST.json"), "w"), indent=1)
    print("claimed:", [c["property_id"] for c in checks])
    print("not_applicable:", [n["property_id"] for n in na])


if __name__ == "__main__":
    main()
