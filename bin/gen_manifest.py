#!/usr/bin/env python3
"""Regenerate /verif/MANIFEST.json from the harness registry (claimed = properties with registered quick harnesses and an
entry in CLAIMS below; everything else goes to not_applicable with its reason)."""
import json, os, subprocess, sys

VERIF = os.path.dirname(os.path.dirname(os.path.abspath(__file__)))
sys.path.insert(0, os.path.join(VERIF, "harness"))
import registry  # noqa: E402

TECH = "bounded model checking of the real Rust code: Kani 0.68 proof harnesses (kani::any inputs) -> CBMC 6.11 symbolic execution -> CaDiCaL; counterexamples replayed natively"

CLAIMS = {
    "C03": ("decode layer over arbitrary / damaged bytes: EntryHeader::read (all 2^288 inputs), EntryDeserializer (arbitrary buffer, all u32 lengths, any checksum), "
            "BlobIndexReader on a page sealed by the real writer with one damaged byte and on arbitrary pages, Tombstone::read. The scanner / recovery runner and Store::load's key "
            "check do NOT discharge and are not part of the claim. Checksum is a stand-in fold; 'a damaged page whose xxhash64 still matches' is outside the claim.", "0.4 / 4.C03"),
    "C05": ("single-shard accounting: (a) literal small pre-states built through the API, ONE operation with literal key / weight / filter outcome and symbolic payload: usage()==sum of findable "
            "weights, entries()==count, no eviction while usage+weight<=capacity, within capacity afterwards unless pinned / oversized, clear() zeroes, touch leaves nothing pinned; "
            "(b) a RawCacheShard under 2 fully symbolic operations (capacity 0..4, keys, weights 0..3, phantom, hint) with per-eviction minimality; (c) shard capacities add up (all usize, 1..4 shards). "
            "FIFO / LRU / SIEVE instantiations.", "0.4 / 4.C05"),
    "C07": ("writer side only, context level: from 13 literal pre-state structures of a 4-page block (all the invariant allows) and the index-full boundary structures of a 256-page block, one "
            "batch of 1-3 entries with symbolic in-page lengths leaves the split context (blob offset, part offset, index count) exactly where the layout rules put it and inside the "
            "invariant - i.e. the next batch cannot overlap this one and a full index closes the blob. Per-entry addresses, index page contents, the reader / scanner side and mid-batch "
            "block splits with a non-empty part are NOT decided (DESIGN 0.5).", "0.4 / 4.C07"),
    "C08": ("Code round trips for every numeric type (all bit patterns), bool, String/Vec<u8>/Bytes at concrete lengths 0..8 with symbolic contents; too-small destinations give "
            "BufferSizeLimit, never partial success; entry framing (header write/read, serializer/deserializer, recorded lengths). Compression::None only.", "4.C08"),
    "C11": ("close-flag identity only: the flag handed to the fetch leader is the one InflightManager::take sets when an insert takes the in-flight entry over, so the fetch task sees it "
            "(real InflightManager over portable-group hashbrown, one key, take by id or by key). The RawFetch schedule itself is NOT decided.", "0.4 / 4.C11"),
    "C12": ("decision points only: on-disk advice / admission-filter rejection is not retained in memory and is offered to the pipe exactly once at last drop, ordinary inserts are retained and "
            "not piped at insert; the real Store::enqueue over a harness Engine: a rejected / throttled entry is not queued and its older disk copy is deleted. Device writes, write policies, "
            "close and HybridCache itself are NOT decided.", "0.4 / 4.C12"),
    "C13": ("single-threaded conservation over one-step harnesses (literal structure, symbolic payload) with a recording listener and pipe: every entry that stops being findable produced exactly one on_leave with the matching reason; "
            "Evict (incl. evict_all and last drop of a disk-only entry) is piped exactly once, Replace/Remove/Clear never.", "4.C13"),
    "C14": ("differential, symbolic inputs: the real Fifo / Lru / Sieve containers against an executable reference of the documented rule, lock-step equality of every victim "
            "and of the final drain order; 3 records with symbolic weights and hints, 3 (quick) / up to 5 (thorough) symbolic operations from push/pop/remove/acquire/release. "
            "S3-FIFO and w-TinyLFU are NOT covered (their harnesses do not discharge; DESIGN 0.5).", "0.4 / 4.C14"),
    "C16": ("single-thread re-entrancy: listener, weighter, filter and the value destructor call back (insert: write lock) into the same single-shard cache during insert / remove / clear / "
            "evict_all / disk-only drop; parking_lot slow paths are stubbed to panic, so any lock requested while held is a solver-visible failure. Multi-thread deadlocks are outside.", "4.C16"),
    "C18": ("single-threaded, one-step harnesses (literal structure, symbolic payload): handle key/value/weight unchanged across the step, refs()==live handles, is_outdated() iff a lookup no longer returns the record, LRU never evicts a "
            "looked-up-and-held entry, capacity re-established after the last handle drop.", "4.C18"),
}

NA = {
    "C01": "the core obligation (write-queue visibility in the real Keeper, Store::load's lookup order / key check) does not discharge: portable hashbrown lookups through raw-pointer `Piece`s need >600 s / 10-18 GB for a 4-step concrete schedule (DESIGN 0.5); flusher / reclaim / recovery / reopen need tokio. The keeper defect found on the way was reproduced natively and fixed (6210977).",
    "C10": "everything beyond the slot arithmetic runs through PageBuffer, whose `dyn Any` downcast has no body under Kani's vtable restriction and whose `Result<_, Error>` paths do not discharge (1500 s); async fns cannot be stubbed (DESIGN 0.5). Claiming the property on `calculate_slot_addr` alone would not have detected the defect found in `open` (fixed: 2570f1e, reproduced natively).",
    "C17": "the real HashTableIndexer / in-flight table / keeper lookups (portable hashbrown reading buckets through computed pointers) do not discharge: two inserts + two lookups of colliding keys reach 26 GB / 1000 s (DESIGN 0.5); the RawCache harnesses use colliding keys but a harness indexer, which is not the code C17 is about.",
    "C02": "linearizability under thread interleavings: Kani/CBMC execute Rust sequentially (no thread model); splitting the real functions at interior points would be a hand-written model, not the real code (DESIGN 4.C02)",
    "C04": "crash points are prefixes of the write sequence emitted by the running flusher / tombstone / reclaimer tokio tasks and the recovery merge sits behind Spawner: not executable by the solver (DESIGN 4.C04); reachable recovery pieces are decided under C03/C07 and not relabelled",
    "C06": "the in-flight table alone (enqueue + fetch_or_take, or three enqueues + takes of colliding keys) needs > 1200 s; the fetch state machine on top of it (RawFetch::poll, mea oneshot, boxed futures, Spawner) is out of reach (DESIGN 0.5 / 4.C06); the close-flag obligation is kept under C11",
    "C09": "block hand-out / reclaim / writer liveness are properties of BlockManager + Reclaimer + Flusher running concurrently on tokio (own a Spawner; liveness has no bounded sequential safety form) (DESIGN 4.C09)",
    "C15": "close = memory.flush().await + storage.close() + reopen over Store/engine/device, all behind Spawner/tokio (DESIGN 4.C15); the eviction half of flush is decided under C13",
}


def main():
    byp = registry.by_property()
    checks = []
    na = []
    props = [json.loads(l)["id"] for l in open(os.path.join(VERIF, "properties.jsonl"))]
    for p in props:
        quick = [h for h in byp.get(p, []) if "quick" in h["tiers"]]
        if p in CLAIMS and quick:
            text, ref = CLAIMS[p]
            checks.append({
                "property_id": p,
                "quick_cmd": f"bin/check {p} --tier quick",
                "thorough_cmd": f"bin/check {p} --tier thorough",
                "evidence_file": f"/verif/evidence/{p}.json",
                "replay_cmd_template": f"bin/check {p} --replay {{path}}",
                "engine": "kani-cbmc",
                "level_claimed": {"category": "model_checking", "text": text, "design_ref": ref},
                "level_note": "Bounded: every harness states its bounds (evidence coverage.samples[*].bounds); nothing is claimed outside them. Trusted base: rustc MIR -> kani-compiler -> CBMC -> CaDiCaL, "
                              "the stub set listed per harness (logging off, lock slow paths panic, no-op metrics, deallocation is a no-op, checksum stand-in where stated), portable-group hashbrown where stated. "
                              "Unwinding assertions ON; cover witnesses must be satisfied; counterexamples are replayed natively before a VIOLATION is printed; timeouts/OOM are exit 2, never success.",
                "technique": TECH,
            })
        else:
            na.append({"property_id": p, "reason": NA.get(p, "check not built yet (work in progress)")})
    hooks_commits = subprocess.run(["git", "-C", "/repo", "log", "--format=%h", "--grep=^verif:"], capture_output=True, text=True).stdout.split()
    m = {
        "version": 1,
        "setup_cmd": "bin/setup",
        "hooks": {
            "guard": "cfg(kani)",
            "enable": "cargo kani sets --cfg kani; harness modules are attached by `#[cfg(kani)] #[path=\"/verif/harness/...\"] mod verif_kani;` lines at the end of the files whose private items they need",
            "baseline_off_cmd": "cd /repo && (cargo nextest run --workspace --no-fail-fast --test-threads 8 --offline || cargo test --workspace --no-fail-fast --offline)",
            "source_commits": hooks_commits,
            "add_only": False,
        },
        "engines": [{"name": "kani-cbmc", "path": "/verif/bin/check", "serves_properties": [c["property_id"] for c in checks],
                     "kind_free_text": "Kani 0.68 / CBMC 6.11 / CaDiCaL bounded model checking of harnesses compiled inside the real crates; registry in /verif/harness/registry.py"}],
        "checks": checks,
        "notes": "hooks are add-only except ONE edited line in /repo/Cargo.toml (check-cfg list gains 'cfg(kani)' so normal builds stay warning-free) and `mod verif_kani` -> `pub(crate) mod verif_kani` "
                 "in a hook line itself; hence add_only=false. fix: commits in /repo are listed in /verif/known_findings.json. exit codes of bin/check: 0 held, 1 reproduced violation, 2 inconclusive.",
        "not_applicable": na,
    }
    json.dump(m, open(os.path.join(VERIF, "MANIFEST.json"), "w"), indent=1)
    print("claimed:", [c["property_id"] for c in checks])
    print("not_applicable:", [n["property_id"] for n in na])


if __name__ == "__main__":
    main()
