#!/usr/bin/env python3
"""Regenerate /verif/harness/foyer-common/metrics.rs (stub target for Metrics::noop) from /repo/foyer-common/src/metrics.rs."""
import re, sys
src = open('/repo/foyer-common/src/metrics.rs').read()
body = src[src.index('pub struct Metrics {'):]
body = body[:body.index('\n}\n')]
fields = re.findall(r'pub ([a-z_0-9]+): (Boxed[A-Za-z]+)', body)
p = '/verif/harness/foyer-common/metrics.rs'
cur = open(p).read()
head = cur[:cur.index('        Metrics {\n') + len('        Metrics {\n')]
out = head + ''.join(f'            {n}: Box::new(Nop),\n' for n, _ in fields) + '        }\n    }\n}\n'
open(p, 'w').write(out)
print(len(fields), 'fields')
