// cfg(kani) child of foyer-memory/src/eviction/s3fifo.rs: stub target for `GhostQueue::contains`.
// The ghost queue keeps membership twice: in a VecDeque (order, weights) and in a std HashSet (membership test).  std's
// HashSet is SSE2 hashbrown inside the prebuilt std and out of CBMC's reach (DESIGN 2.5b), so in the S3-FIFO harnesses
//   * `HashSet::insert` is a no-op and `GhostQueue::pop` is replaced by `verif_pop` (= the shipped body without
//     `counts.remove`), and
//   * `GhostQueue::contains` answers from the VecDeque, which holds the same hashes as long as no hash is ghosted twice
//     (true in the harness: every record has a distinct hash).
// `GhostQueue::{new,push,update}` - the capacity / trimming logic - run as shipped.
#![allow(dead_code)]
use super::*;

impl GhostQueue {
    pub(crate) fn verif_contains(&self, hash: u64) -> bool {
        let mut i = 0;
        while i < self.queue.len() {
            if self.queue[i].0 == hash {
                return true;
            }
            i += 1;
        }
        false
    }
    /// Stub target for `GhostQueue::pop`: the shipped body minus `self.counts.remove(&hash)` (Kani cannot stub
    /// `HashSet::remove`: its `Borrow<Q>` signature is rejected).
    pub(crate) fn verif_pop(&mut self) {
        if let Some((_hash, weight)) = self.queue.pop_front() {
            self.weight -= weight;
        }
    }
    pub(crate) fn verif_weight(&self) -> usize {
        self.weight
    }
    pub(crate) fn verif_capacity(&self) -> usize {
        self.capacity
    }
}

impl<K, V, P> S3Fifo<K, V, P>
where
    K: Key,
    V: Value,
    P: Properties,
{
    pub(crate) fn verif_ghost_weight(&self) -> usize {
        self.ghost_queue.weight
    }
    pub(crate) fn verif_ghost_capacity(&self) -> usize {
        self.ghost_queue.capacity
    }
    pub(crate) fn verif_ghost_contains(&self, hash: u64) -> bool {
        self.ghost_queue.verif_contains(hash)
    }
    pub(crate) fn verif_small_weight_capacity(&self) -> usize {
        self.small_weight_capacity
    }
}

// ---------------------------------------------------------------------------------------------------------------------
// C14 (S3-FIFO ghost queue, driven directly): three pushes with symbolic weights 1..=2 into a ghost queue of capacity 2.
// The remembered weight never exceeds the configured share and membership is exactly the most recent window.
// ---------------------------------------------------------------------------------------------------------------------
#[allow(dead_code, unused)]
mod stubs {
    include!("/verif/harness/common/stubs.rs");
    pub fn hs_insert<T: Eq + std::hash::Hash, S: std::hash::BuildHasher, A: std::alloc::Allocator>(_this: &mut std::collections::HashSet<T, S, A>, value: T) -> bool {
        std::mem::forget(value);
        true
    }
    pub fn random_state_fixed() -> std::hash::RandomState {
        unsafe { std::mem::transmute::<(u64, u64), std::hash::RandomState>((1, 2)) }
    }
}
include!("/verif/harness/common/macros.rs");

verif_harness! {
    #[kani::stub(std::collections::HashSet::insert, stubs::hs_insert)]
    #[kani::stub(std::hash::RandomState::new, stubs::random_state_fixed)]
    #[kani::stub(crate::eviction::s3fifo::GhostQueue::pop, crate::eviction::s3fifo::GhostQueue::verif_pop)]
    #[kani::stub(crate::eviction::s3fifo::GhostQueue::contains, crate::eviction::s3fifo::GhostQueue::verif_contains)]
    c14_s3fifo_ghost_direct, 6, {
        let mut g = GhostQueue::new(2);
        let w: [usize; 3] = kani::any();
        kani::assume(w[0] >= 1 && w[0] <= 2 && w[1] >= 1 && w[1] <= 2 && w[2] >= 1 && w[2] <= 2);
        let mut i = 0;
        while i < 3 {
            g.push(i as u64, w[i]);
            assert!(g.weight <= g.capacity, "C14: S3-FIFO ghost queue remembers more than its configured share");
            assert!(g.contains(i as u64), "C14: the entry just ghosted is not remembered");
            i += 1;
        }
        assert!(g.contains(1) == (w[1] + w[2] <= 2), "C14: ghost membership is not the most recent window");
        assert!(g.contains(0) == (w[0] + w[1] + w[2] <= 2));
        kani::cover!(!g.contains(1), "ghost forgot an entry");
        kani::cover!(g.contains(1), "ghost kept two entries");
        kani::cover!(true, "end reached");
        std::mem::forget(g);
    }
}
