// cfg(kani) child of foyer-memory/src/eviction/s3fifo.rs: stub target for `GhostQueue::contains`.
// The ghost queue keeps membership twice: in a VecDeque (order, weights) and in a std HashSet (membership test).  std's
// HashSet is SSE2 hashbrown inside the prebuilt std and out of CBMC's reach (DESIGN 2.5b), so in the S3-FIFO harnesses
//   * `HashSet::{insert,remove}` are no-ops (see eviction.rs harness), and
//   * `GhostQueue::contains` answers from the VecDeque, which holds the same hashes as long as no hash is ghosted twice
//     (true in the harness: every record has a distinct hash).
// `GhostQueue::{new,push,pop,update}` - the capacity / trimming logic - run as shipped.
#![allow(dead_code)]
use super::*;

impl GhostQueue {
    pub(crate) fn verif_contains(&self, hash: u64) -> bool {
        let mut i = 0;
        while i < self.queue.len() {
            if self.queue[i].0 == hash {
                return true;
            }
            i += 1;
        }
        false
    }
    pub(crate) fn verif_weight(&self) -> usize {
        self.weight
    }
    pub(crate) fn verif_capacity(&self) -> usize {
        self.capacity
    }
}

impl<K, V, P> S3Fifo<K, V, P>
where
    K: Key,
    V: Value,
    P: Properties,
{
    pub(crate) fn verif_ghost_weight(&self) -> usize {
        self.ghost_queue.weight
    }
    pub(crate) fn verif_ghost_capacity(&self) -> usize {
        self.ghost_queue.capacity
    }
    pub(crate) fn verif_ghost_contains(&self, hash: u64) -> bool {
        self.ghost_queue.verif_contains(hash)
    }
    pub(crate) fn verif_small_weight_capacity(&self) -> usize {
        self.small_weight_capacity
    }
}
