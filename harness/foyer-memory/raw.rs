// Kani harnesses for foyer-memory/src/raw.rs (child module `verif_kani` of `raw`, cfg(kani) only).
// Properties served: C05 (accounting), C13 (leave events / pipe), C18 (handles), C12-P1 / C01-S1 (phantom advice),
// C16 (no lock is requested while one is held: the parking_lot slow paths are stubbed to panic).
// See /verif/DESIGN.md section 4.
#![allow(dead_code, unused_imports, unused_variables, clippy::all)]

use std::cell::{Cell, RefCell};

use foyer_common::properties::{Age, Hint};

use super::*;
use crate::{
    eviction::{
        fifo::{Fifo, FifoConfig},
        lfu::{Lfu, LfuConfig},
        lru::{Lru, LruConfig},
        s3fifo::{S3Fifo, S3FifoConfig},
        sieve::{Sieve, SieveConfig},
    },
    indexer::hash_table::HashTableIndexer,
};

#[allow(dead_code, unused)]
mod stubs {
    include!("/verif/harness/common/stubs.rs");
}
include!("/verif/harness/common/macros.rs");
include!("/verif/harness/foyer-memory/support.rs");

pub const KEYS: [u64; 3] = [16, 17, 32]; // 16 and 17 collide on all 64 hash bits under IdHasher, 32 does not.

fn any_key_idx() -> usize {
    let i: usize = kani::any();
    kani::assume(i < 3);
    i
}

/// value layout: bits 0..1 weight, bit 2 "filter rejects", bits 3.. version payload
fn weight_of(v: u64) -> usize {
    (v & 3) as usize
}

pub struct Ghost {
    /// latest non-phantom value inserted for the key and not since removed / cleared / phantom-replaced / evicted
    pub last: [Option<u64>; 3],
}

pub type Cache<E> = RawCache<E, IdHasher, VecIndexer<E>>;
pub type Entry<E> = RawCacheEntry<E, IdHasher, VecIndexer<E>>;

/// Literal answers for the weighter / filter inside a case of the case split (None = compute from the value).
pub struct Force {
    w: Cell<Option<usize>>,
    rej: Cell<Option<bool>>,
}
unsafe impl Send for Force {}
unsafe impl Sync for Force {}
impl Force {
    pub fn new() -> Self {
        Force { w: Cell::new(None), rej: Cell::new(None) }
    }
    pub fn set(&self, w: Option<usize>, rej: Option<bool>) {
        self.w.set(w);
        self.rej.set(rej);
    }
}

fn mk_cache<E>(capacity: usize, cfg: E::Config, log: Option<Arc<EventLog>>, pipe: Option<Arc<RecPipe>>, force: Arc<Force>) -> Cache<E>
where
    E: Eviction<Key = u64, Value = u64, Properties = HProps>,
{
    let c = RawCache::new(RawCacheConfig {
        capacity,
        shards: 1,
        eviction_config: cfg,
        hash_builder: IdHasher,
        weighter: {
            let f = force.clone();
            Arc::new(move |_k: &u64, v: &u64| match f.w.get() {
                Some(w) => w,
                None => weight_of(*v),
            })
        },
        filter: {
            let f = force.clone();
            Arc::new(move |_k: &u64, v: &u64| match f.rej.get() {
                Some(r) => !r,
                None => v & 4 == 0,
            })
        },
        event_listener: log.map(|l| l as Arc<dyn EventListener<Key = u64, Value = u64>>),
        metrics: Arc::new(Metrics::noop()),
    });
    let c = match pipe {
        Some(p) => c.with_pipe(p),
        None => c,
    };
    // One extra, never released strong reference to the cache internals (inner + pipe Arcs).  Handles clone those Arcs
    // under symbolic conditions (e.g. "remove found the key"), so at a handle's drop the reference count is an if-then-else
    // term; without the spare reference CBMC cannot syntactically rule out "this was the last reference" and symbolically
    // executes the whole cache teardown (RawCacheInner::drop -> clear) on an infeasible path at every handle drop.
    std::mem::forget(c.clone());
    c
}

/// C05-A1: usage()/entries() equal the sum / count over the keys a lookup still finds, where the weight of a found key
/// is the weight of the latest value inserted for it (ghost).
fn check_accounting<E>(cache: &Cache<E>, ghost: &Ghost)
where
    E: Eviction<Key = u64, Value = u64, Properties = HProps>,
{
    let mut sum = 0usize;
    let mut cnt = 0usize;
    let mut i = 0;
    while i < 3 {
        if cache.contains(&KEYS[i]) {
            assert!(ghost.last[i].is_some(), "C05/C01-S1: lookup finds a key that must be absent");
            sum += weight_of(ghost.last[i].unwrap());
            cnt += 1;
        }
        i += 1;
    }
    assert!(cache.usage() == sum, "C05-A1: usage() != summed weight of findable entries");
    assert!(cache.entries() == cnt, "C05-A1: entries() != number of findable entries");
}

/// ghost entries that are no longer resident were evicted: forget them
fn sync_ghost<E>(cache: &Cache<E>, ghost: &mut Ghost)
where
    E: Eviction<Key = u64, Value = u64, Properties = HProps>,
{
    let mut j = 0;
    while j < 3 {
        if ghost.last[j].is_some() && !cache.contains(&KEYS[j]) {
            ghost.last[j] = None;
        }
        j += 1;
    }
}

/// Scenario of one step harness: a pre-state built through the real API, then ONE operation with symbolic arguments.
#[derive(Clone, Copy)]
pub struct Sc {
    /// capacity: Some = concrete pre-state, None = symbolic 0..=4
    pub cap: Option<usize>,
    /// values of the pre-state inserts (weight = v & 3); None = symbolic weight 0..=3
    pub pre: [Option<u64>; 3],
    pub n_pre: usize,
    /// hold a looked-up handle on KEYS[0] across the step
    pub hold_first: bool,
    /// the algorithm pins looked-up entries (LRU)
    pub pinning: bool,
    /// install the recording listener and the recording pipe (C13)
    pub observe: bool,
    /// keep the handle returned by the pre-state insert of KEYS[0] alive across the step (a handle that was NOT
    /// obtained by a lookup: it counts as a reference but does not pin)
    pub keep_insert_handle: bool,
    /// weight (0..=3) and admission-filter outcome of the value the operation inserts: LITERAL per harness.  They decide
    /// how many evictions happen, i.e. the shape of the heap; leaving them symbolic makes CBMC merge different heap
    /// shapes (measured: 17-21 GB, 7+ min per harness, also with an in-harness case split).  The rest of the value (a
    /// 32-bit payload in bits 4..) is symbolic.
    pub lit: (usize, bool),
    pub op: u8,
    /// key index the operation works on: Some = concrete, None = symbolic.  Operations that return an OPTIONAL handle
    /// (get / remove / touch) use a concrete key: with a symbolic one the handle - and with it a clone of the cache's
    /// internal Arcs - exists only under a symbolic condition, the reference counts become if-then-else terms and CBMC
    /// then symbolically executes the whole cache teardown on the (infeasible) "last reference" path of every drop.
    pub key: Option<usize>,
}

pub const OP_INSERT: u8 = 0;
pub const OP_INSERT_LOW: u8 = 1;
pub const OP_INSERT_DISK: u8 = 2;
pub const OP_REMOVE: u8 = 3;
pub const OP_GET: u8 = 4;
pub const OP_TOUCH: u8 = 5;
pub const OP_CLEAR: u8 = 6;
pub const OP_EVICT_ALL: u8 = 7;
pub const OP_GET_HOLD_INSERT: u8 = 8; // C18: look up k, hold, then insert another key; held entry must stay intact
pub const OP_TOUCH_INSERT: u8 = 9; // C18/C05: touch k (no handle is created), then insert: nothing may stay pinned
pub const OP_PIN_DROP_KEPT_LAST: u8 = 10; // C18: look k0 up while its insert handle is alive, drop the lookup handle first and the insert handle LAST, then insert

fn step<E>(cfg: E::Config, sc: Sc)
where
    E: Eviction<Key = u64, Value = u64, Properties = HProps>,
{
    let capacity: usize = match sc.cap {
        Some(c) => c,
        None => {
            let c: usize = kani::any();
            kani::assume(c <= 4);
            c
        }
    };
    let log = if sc.observe { Some(Arc::new(EventLog::new())) } else { None };
    let pipe = if sc.observe { Some(Arc::new(RecPipe::new(true))) } else { None };
    let force = Arc::new(Force::new());
    let cache: Cache<E> = mk_cache(capacity, cfg, log.clone(), pipe.clone(), force.clone());
    let mut ghost = Ghost { last: [None; 3] };

    // ---- pre-state ----
    let mut kept: Option<Entry<E>> = None;
    let mut i = 0;
    while i < sc.n_pre {
        let v: u64 = match sc.pre[i] {
            Some(v) => v,
            None => {
                let v: u64 = kani::any();
                kani::assume(v < 4);
                v
            }
        };
        let e = cache.insert(KEYS[i], v | 8); // bit 3 marks "pre-state version"
        ghost.last[i] = Some(v | 8);
        if i == 0 && sc.keep_insert_handle {
            kept = Some(e);
        } else {
            drop(e);
        }
        i += 1;
    }
    sync_ghost(&cache, &mut ghost);
    let held: Option<Entry<E>> = if sc.hold_first { cache.get(&KEYS[0]) } else { None };
    let held_copy = held.as_ref().map(|e| (*e.key(), *e.value(), e.weight()));
    let pinned = sc.pinning && held.is_some();
    check_accounting(&cache, &ghost);
    let pre_usage = cache.usage();
    let pre = ghost.last; // resident set and values before the step
    let ev0 = log.as_ref().map(|l| l.n.get()).unwrap_or(0);
    let pp0 = pipe.as_ref().map(|p| p.n.get()).unwrap_or(0);

    let ki = match sc.key {
        Some(i) => i,
        None => any_key_idx(),
    };
    let st = St { capacity, pinned, pre_usage, pre, ev0, pp0, held_copy };
    // ---- the step ----
    // The inserted value: literal weight / filter bit (see `Sc::lit`), symbolic 32-bit payload.
    let payload: u32 = kani::any();
    let v: u64 = ((payload as u64) << 4) | (sc.lit.0 as u64) | if sc.lit.1 { 4 } else { 0 };
    force.set(Some(sc.lit.0), Some(sc.lit.1));
    step_body::<E>(&sc, &st, &cache, &mut ghost, log.as_ref(), pipe.as_ref(), held.as_ref(), &mut kept, &force, ki, v);
    if let Some(kh) = kept.as_ref() {
        assert!(*kh.key() == KEYS[0] && kh.weight() == weight_of(*kh.value()) && *kh.value() & 8 != 0, "C18: kept insert handle changed");
    }
    kani::cover!(true, "end reached");
    std::mem::forget(kept);
    std::mem::forget(held);
    std::mem::forget(cache);
}

pub struct St {
    capacity: usize,
    pinned: bool,
    pre_usage: usize,
    pre: [Option<u64>; 3],
    ev0: usize,
    pp0: usize,
    held_copy: Option<(u64, u64, usize)>,
}

#[allow(clippy::too_many_arguments)]
fn step_body<E>(
    sc: &Sc,
    st: &St,
    cache: &Cache<E>,
    ghost: &mut Ghost,
    log: Option<&Arc<EventLog>>,
    pipe: Option<&Arc<RecPipe>>,
    held: Option<&Entry<E>>,
    kept: &mut Option<Entry<E>>,
    force: &Force,
    ki: usize,
    v: u64,
) where
    E: Eviction<Key = u64, Value = u64, Properties = HProps>,
{
    let (capacity, pinned, pre_usage, pre, ev0, pp0, held_copy) = (st.capacity, st.pinned, st.pre_usage, st.pre, st.ev0, st.pp0, st.held_copy);
    let k = KEYS[ki];
    // literal weight / filter outcome of the case (equal to what the symbolic value says: asserted where it is inserted)
    let lit_w = force.w.get().unwrap_or(weight_of(v));
    let lit_rej = force.rej.get().unwrap_or(v & 4 != 0);
    // expected leave reason of the pre-state entry of key k, if it leaves through the operation itself
    let mut own_reason: u8 = 0;
    match sc.op {
        OP_INSERT | OP_INSERT_LOW | OP_INSERT_DISK => {
            let props = match sc.op {
                OP_INSERT => HProps::default(),
                OP_INSERT_LOW => HProps::default().with_hint(Hint::Low),
                _ => HProps::default().with_location(Location::OnDisk),
            };
            let phantom = sc.op == OP_INSERT_DISK || lit_rej;
            let e = cache.insert_with_properties(k, v, props);
            assert!(lit_w == weight_of(v) && lit_rej == (v & 4 != 0), "harness: case literals differ from the symbolic value");
            assert!(*e.key() == k && *e.value() == v && e.weight() == weight_of(v));
            own_reason = EventLog::code(Event::Replace);
            if phantom {
                ghost.last[ki] = None;
                assert!(!cache.contains(&k), "C12-P1/C01-S1: on-disk / filtered insert stays findable in memory");
                assert!(e.is_outdated(), "C18: handle of a non-resident entry claims to be current");
                if let Some(p) = pipe {
                    assert!(p.count_kv(k, v) == 0, "C13/C12-P1: disk-only entry handed to the disk tier before its last handle is dropped");
                }
                kani::cover!(pre[ki].is_some(), "opt: phantom over resident");
                // a second handle of the disk-only entry that goes away FIRST: nothing may be handed over yet
                let c = e.clone();
                assert!(e.refs() == 2, "C18: refs() != number of live handles");
                drop(c);
                assert!(e.refs() == 1, "C18: refs() != number of live handles");
                if let Some(p) = pipe {
                    assert!(p.count_kv(k, v) == 0, "C13/C12-P1: disk-only entry handed to the disk tier while another handle of it is alive");
                }
            } else {
                ghost.last[ki] = Some(v);
                assert!(cache.contains(&k), "insert: new entry not findable right after insert");
                assert!(!e.is_outdated(), "C18: handle of the current entry claims to be outdated");
                let w = lit_w;
                if w <= capacity && !pinned {
                    assert!(cache.usage() <= capacity, "C05-A2: over capacity after insert with nothing pinned");
                }
                if pre_usage + w <= capacity {
                    let mut j = 0;
                    while j < 3 {
                        if j != ki && pre[j].is_some() {
                            assert!(cache.contains(&KEYS[j]), "C05-A2: eviction although usage + weight <= capacity");
                        }
                        j += 1;
                    }
                }
                if pinned && ki != 0 {
                    assert!(cache.contains(&KEYS[0]), "C18: entry with a live looked-up handle was evicted");
                }
                kani::cover!(pre[ki].is_some(), "opt: replace");
                kani::cover!(
                    (ki != 0 && pre[0].is_some() && !cache.contains(&KEYS[0])) || (ki != 1 && pre[1].is_some() && !cache.contains(&KEYS[1])),
                    "opt: eviction"
                );
            }
            drop(e);
            if phantom {
                if let Some(p) = pipe {
                    assert!(p.count_kv(k, v) == 1, "C13/C12-P1: disk-only entry not handed to the disk tier exactly once at last drop");
                }
            }
        }
        OP_REMOVE => {
            let r = cache.remove(&k);
            match (&r, pre[ki]) {
                (Some(e), Some(v)) => assert!(*e.value() == v && *e.key() == k),
                (Some(_), None) => panic!("remove returned an entry for an absent key"),
                (None, Some(_)) => panic!("remove missed a resident key"),
                _ => {}
            }
            ghost.last[ki] = None;
            own_reason = EventLog::code(Event::Remove);
            assert!(!cache.contains(&k));
            if let Some(e) = r.as_ref() {
                assert!(e.is_outdated(), "C18: removed entry's handle claims to be current");
            }
            kani::cover!(r.is_some(), "opt: removed a resident entry");
            drop(r);
        }
        OP_GET => {
            let g = cache.get(&k);
            match &g {
                Some(e) => {
                    assert!(*e.key() == k);
                    assert!(Some(*e.value()) == pre[ki], "lookup returned a value that is not the latest insert");
                    assert!(!e.is_outdated(), "C18: fresh lookup handle claims to be outdated");
                    assert!(e.refs() == 1 + usize::from(sc.hold_first && ki == 0) + usize::from(sc.keep_insert_handle && ki == 0), "C18: refs() != number of live handles");
                    let c = e.clone();
                    assert!(c.refs() == e.refs() && *c.value() == *e.value());
                    drop(c);
                }
                None => assert!(pre[ki].is_none(), "lookup missed a resident key"),
            }
            kani::cover!(g.is_some(), "opt: hit");
            drop(g);
        }
        OP_TOUCH => {
            let t = cache.touch(&k);
            assert!(t == pre[ki].is_some());
        }
        OP_CLEAR => {
            cache.clear();
            ghost.last = [None; 3];
            own_reason = EventLog::code(Event::Clear);
            assert!(cache.usage() == 0, "C05-A3: clear() leaves usage != 0");
            assert!(cache.entries() == 0, "C05-A3: clear() leaves entries != 0");
        }
        OP_EVICT_ALL => {
            cache.evict_all();
            if !pinned {
                assert!(cache.usage() == 0 && cache.entries() == 0, "evict_all leaves entries although nothing is pinned");
            }
        }
        OP_TOUCH_INSERT => {
            let t = cache.touch(&k);
            assert!(t == pre[ki].is_some());
            // no handle exists now; an insert must be able to bring the cache back within capacity (nothing stays pinned)
            let kj = (ki + 2) % 3; // concrete second key (for k0: the absent key 32)
            let e = cache.insert(KEYS[kj], v);
            ghost.last[kj] = Some(v);
            assert!(lit_w == weight_of(v) && !lit_rej);
            if lit_w <= capacity && !pinned {
                assert!(cache.usage() <= capacity, "C18/C05: over capacity after touch + insert although no handle is outstanding (touched entry stays pinned)");
            }
            drop(e);
        }
        OP_PIN_DROP_KEPT_LAST => {
            // the insert handle of k (= KEYS[0]) is alive (`kept`); a lookup pins the record (LRU); the lookup handle goes
            // first, the insert handle LAST: whichever handle is the last one must give the pin back
            let g = cache.get(&k);
            assert!(g.is_some() && kept.is_some(), "harness: OP_PIN_DROP_KEPT_LAST needs keep_insert_handle and key 0");
            assert!(g.as_ref().unwrap().refs() == 2, "C18: refs() != number of live handles");
            drop(g);
            let kh = kept.take();
            assert!(kh.as_ref().unwrap().refs() == 1, "C18: refs() != number of live handles");
            drop(kh);
            let kj = 2; // the absent key 32
            let e = cache.insert(KEYS[kj], v);
            ghost.last[kj] = Some(v);
            assert!(lit_w == weight_of(v) && !lit_rej);
            if lit_w <= capacity && !pinned {
                assert!(cache.usage() <= capacity, "C18: capacity not re-established although no looked-up handle is outstanding (entry stays pinned after its last handle was dropped)");
            }
            drop(e);
        }
        _ => {
            // OP_GET_HOLD_INSERT (C18): hold a looked-up handle of k across an insert of another key
            let g = cache.get(&k);
            let kj = (ki + 2) % 3; // concrete second key
            let e = cache.insert(KEYS[kj], v);
            ghost.last[kj] = Some(v);
            if let Some(h) = g.as_ref() {
                assert!(*h.key() == k && Some(*h.value()) == pre[ki] && h.weight() == weight_of(pre[ki].unwrap()), "C18: held entry changed");
                if sc.pinning {
                    assert!(cache.contains(&k), "C18: looked-up and still held entry was evicted");
                    assert!(!h.is_outdated());
                } else {
                    assert!(h.is_outdated() == !cache.contains(&k), "C18: is_outdated() disagrees with lookup");
                }
            }
            drop(e);
            drop(g);
            // after the last handle is gone, one more insert brings the cache back within capacity
            let kl = kj;
            force.set(Some(1), Some(false));
            let e2 = cache.insert(KEYS[kl], 1);
            ghost.last[kl] = Some(1);
            if capacity >= 1 && !pinned {
                assert!(cache.usage() <= capacity, "C18: capacity not re-established after all handles were released");
            }
            drop(e2);
        }
    }
    sync_ghost(cache, ghost);
    check_accounting(cache, ghost);

    // ---- C18: the handle held across the step is intact and truthful ----
    if let (Some(h), Some((hk, hv, hw))) = (held, held_copy) {
        assert!(*h.key() == hk && *h.value() == hv && h.weight() == hw, "C18: held entry's key/value/weight changed");
        let still = cache.contains(&KEYS[0]) && ghost.last[0] == Some(hv);
        assert!(h.is_outdated() == !still, "C18: is_outdated() disagrees with what a lookup returns");
        if pinned && sc.op != OP_REMOVE && sc.op != OP_CLEAR && !(ki == 0 && sc.op <= OP_INSERT_DISK) {
            assert!(still, "C18: entry with a live looked-up handle was evicted");
        }
    }

    // ---- C13: conservation of leave notifications and disk hand-off ----
    if let (Some(l), Some(p)) = (log, pipe) {
        let mut j = 0;
        while j < 3 {
            if let Some(v) = pre[j] {
                let still = ghost.last[j] == Some(v) && cache.contains(&KEYS[j]);
                let n = l.count_kv(KEYS[j], v);
                if still {
                    assert!(n == 0, "C13: leave notification for an entry a lookup still finds");
                    assert!(p.count_kv(KEYS[j], v) == 0, "C13: resident entry offered to the disk tier");
                } else {
                    assert!(n == 1, "C13: an entry that left memory did not produce exactly one leave notification");
                    let reason = l.reason_of(KEYS[j], v);
                    let expect = if sc.op == OP_CLEAR {
                        EventLog::code(Event::Clear)
                    } else if j == ki && own_reason != 0 {
                        own_reason
                    } else {
                        EventLog::code(Event::Evict)
                    };
                    // the old copy of key k may also have been evicted by capacity before the new one was linked
                    assert!(
                        reason == expect || (j == ki && reason == EventLog::code(Event::Evict) && sc.op <= OP_INSERT_LOW),
                        "C13: leave reason does not match what happened"
                    );
                    let sent = p.count_kv(KEYS[j], v);
                    if reason == EventLog::code(Event::Evict) {
                        assert!(sent == 1, "C13: evicted entry not offered to the disk tier exactly once");
                    } else {
                        assert!(sent == 0, "C13: replaced/removed/cleared entry offered to the disk tier");
                    }
                }
            }
            j += 1;
        }
        kani::cover!(l.n.get() > ev0, "opt: a leave notification was produced");
        kani::cover!(p.n.get() > pp0, "opt: an entry was offered to the disk tier");
    }
}

macro_rules! step_harness {
    ($name:ident, $e:ty, $cfg:expr, $sc:expr) => {
        verif_harness! { #[kani::stub(crate::inflight::InflightManager::take, crate::inflight::InflightManager::verif_take_none)] $name, 5, {
            step::<$e>($cfg, $sc);
        } }
    };
}

pub const fn sc(cap: Option<usize>, pre: [Option<u64>; 3], n_pre: usize, hold_first: bool, pinning: bool, observe: bool, op: u8) -> Sc {
    Sc { cap, pre, n_pre, hold_first, pinning, observe, op, key: None, keep_insert_handle: false, lit: (1, false) }
}
pub const fn sc_keep(cap: Option<usize>, pre: [Option<u64>; 3], n_pre: usize, hold_first: bool, pinning: bool, observe: bool, op: u8) -> Sc {
    Sc { cap, pre, n_pre, hold_first, pinning, observe, op, key: None, keep_insert_handle: true, lit: (1, false) }
}
pub const fn sck(cap: Option<usize>, pre: [Option<u64>; 3], n_pre: usize, hold_first: bool, pinning: bool, observe: bool, op: u8, key: usize) -> Sc {
    Sc { cap, pre, n_pre, hold_first, pinning, observe, op, key: Some(key), keep_insert_handle: false, lit: (1, false) }
}

type FifoT = Fifo<u64, u64, HProps>;
type LruT = Lru<u64, u64, HProps>;
type SieveT = Sieve<u64, u64, HProps>;
type S3FifoT = S3Fifo<u64, u64, HProps>;
type LfuT = Lfu<u64, u64, HProps>;

const FULL2: [Option<u64>; 3] = [Some(1), Some(1), None]; // two entries of weight 1
const HEAVY: [Option<u64>; 3] = [Some(2), Some(1), None]; // weights 2 + 1

// Keys, the inserted weight and the filter outcome are literal per harness (k0 = 16 resident, k1 = 17 resident and colliding
// with 16, k2 = 32 absent; wN = weight N; r = rejected by the admission filter); the payload of the inserted value is symbolic.
macro_rules! st {
    ($name:ident, $e:ty, $cfg:expr, $cap:expr, $pre:expr, $npre:expr, $hold:expr, $pin:expr, $obs:expr, $op:expr, $key:expr, $w:expr, $rej:expr) => {
        step_harness!($name, $e, $cfg, Sc { lit: ($w, $rej), ..sck($cap, $pre, $npre, $hold, $pin, $obs, $op, $key) });
    };
}
macro_rules! step3 {
    ($n0:ident, $n1:ident, $n2:ident, $e:ty, $cfg:expr, $cap:expr, $pre:expr, $npre:expr, $hold:expr, $pin:expr, $obs:expr, $op:expr) => {
        step_harness!($n0, $e, $cfg, sck($cap, $pre, $npre, $hold, $pin, $obs, $op, 0));
        step_harness!($n1, $e, $cfg, sck($cap, $pre, $npre, $hold, $pin, $obs, $op, 1));
        step_harness!($n2, $e, $cfg, sck($cap, $pre, $npre, $hold, $pin, $obs, $op, 2));
    };
}
const FC: FifoConfig = FifoConfig {};
// ---- FIFO, capacity 2, resident 16,17 (weight 1 each): insert ----
st!(raw_fifo_c2_ins_k2_w0, FifoT, FC, Some(2), FULL2, 2, false, false, true, OP_INSERT, 2, 0, false);
st!(raw_fifo_c2_ins_k2_w1, FifoT, FC, Some(2), FULL2, 2, false, false, true, OP_INSERT, 2, 1, false);
st!(raw_fifo_c2_ins_k2_w2, FifoT, FC, Some(2), FULL2, 2, false, false, true, OP_INSERT, 2, 2, false);
st!(raw_fifo_c2_ins_k2_w3, FifoT, FC, Some(2), FULL2, 2, false, false, true, OP_INSERT, 2, 3, false);
st!(raw_fifo_c2_ins_k2_w1r, FifoT, FC, Some(2), FULL2, 2, false, false, true, OP_INSERT, 2, 1, true);
st!(raw_fifo_c2_ins_k0_w0, FifoT, FC, Some(2), FULL2, 2, false, false, true, OP_INSERT, 0, 0, false);
st!(raw_fifo_c2_ins_k0_w1, FifoT, FC, Some(2), FULL2, 2, false, false, true, OP_INSERT, 0, 1, false);
st!(raw_fifo_c2_ins_k0_w2, FifoT, FC, Some(2), FULL2, 2, false, false, true, OP_INSERT, 0, 2, false);
st!(raw_fifo_c2_ins_k0_w3, FifoT, FC, Some(2), FULL2, 2, false, false, true, OP_INSERT, 0, 3, false);
st!(raw_fifo_c2_ins_k0_w2r, FifoT, FC, Some(2), FULL2, 2, false, false, true, OP_INSERT, 0, 2, true);
st!(raw_fifo_c2_ins_k1_w1, FifoT, FC, Some(2), FULL2, 2, false, false, true, OP_INSERT, 1, 1, false);
st!(raw_fifo_c2_ins_k1_w2, FifoT, FC, Some(2), FULL2, 2, false, false, true, OP_INSERT, 1, 2, false);
st!(raw_fifo_c2_ins_k1_w0r, FifoT, FC, Some(2), FULL2, 2, false, false, true, OP_INSERT, 1, 0, true);
// ---- disk-only insert (Location::OnDisk) over a resident key with a different weight, and of an absent key ----
st!(raw_fifo_c2_insdisk_k0_w0, FifoT, FC, Some(2), FULL2, 2, false, false, true, OP_INSERT_DISK, 0, 0, false);
st!(raw_fifo_c2_insdisk_k0_w2, FifoT, FC, Some(2), FULL2, 2, false, false, true, OP_INSERT_DISK, 0, 2, false);
st!(raw_fifo_c2_insdisk_k1_w3, FifoT, FC, Some(2), FULL2, 2, false, false, true, OP_INSERT_DISK, 1, 3, false);
st!(raw_fifo_c2_insdisk_k2_w1, FifoT, FC, Some(2), FULL2, 2, false, false, true, OP_INSERT_DISK, 2, 1, false);
// ---- remove / get / touch / clear / evict_all ----
step3!(raw_fifo_c2_remove_k0, raw_fifo_c2_remove_k1, raw_fifo_c2_remove_k2, FifoT, FC, Some(2), FULL2, 2, false, false, true, OP_REMOVE);
step3!(raw_fifo_c2_get_k0, raw_fifo_c2_get_k1, raw_fifo_c2_get_k2, FifoT, FC, Some(2), FULL2, 2, false, false, false, OP_GET);
st!(raw_fifo_c2_touch_ins_k0_w2, FifoT, FC, Some(2), FULL2, 2, false, false, false, OP_TOUCH_INSERT, 0, 2, false);
step_harness!(raw_fifo_c2_clear, FifoT, FC, sc(Some(2), FULL2, 2, false, false, true, OP_CLEAR));
step_harness!(raw_fifo_c2_evictall, FifoT, FC, sc(Some(2), FULL2, 2, false, false, true, OP_EVICT_ALL));
// ---- a looked-up handle of 16 is held across the insert ----
st!(raw_fifo_c2_hold_ins_k2_w1, FifoT, FC, Some(2), FULL2, 2, true, false, false, OP_INSERT, 2, 1, false);
st!(raw_fifo_c2_hold_ins_k2_w2, FifoT, FC, Some(2), FULL2, 2, true, false, false, OP_INSERT, 2, 2, false);
st!(raw_fifo_c2_hold_ins_k0_w1, FifoT, FC, Some(2), FULL2, 2, true, false, false, OP_INSERT, 0, 1, false);
st!(raw_fifo_c2_holdins_k0_w1, FifoT, FC, Some(2), FULL2, 2, false, false, false, OP_GET_HOLD_INSERT, 0, 1, false);
st!(raw_fifo_c2_holdins_k0_w2, FifoT, FC, Some(2), FULL2, 2, false, false, false, OP_GET_HOLD_INSERT, 0, 2, false);
// ---- capacity 3 with weights 2+1, capacity 4 with slack, empty cache, capacity 0 and 1 ----
st!(raw_fifo_c3_ins_k2_w0, FifoT, FC, Some(3), HEAVY, 2, false, false, true, OP_INSERT, 2, 0, false);
st!(raw_fifo_c3_ins_k2_w1, FifoT, FC, Some(3), HEAVY, 2, false, false, true, OP_INSERT, 2, 1, false);
st!(raw_fifo_c3_ins_k2_w2, FifoT, FC, Some(3), HEAVY, 2, false, false, true, OP_INSERT, 2, 2, false);
st!(raw_fifo_c3_ins_k2_w3, FifoT, FC, Some(3), HEAVY, 2, false, false, true, OP_INSERT, 2, 3, false);
st!(raw_fifo_c3_ins_k0_w1, FifoT, FC, Some(3), HEAVY, 2, false, false, true, OP_INSERT, 0, 1, false);
st!(raw_fifo_c3_ins_k0_w3, FifoT, FC, Some(3), HEAVY, 2, false, false, true, OP_INSERT, 0, 3, false);
st!(raw_fifo_c3_ins_k1_w3, FifoT, FC, Some(3), HEAVY, 2, false, false, true, OP_INSERT, 1, 3, false);
st!(raw_fifo_c4_ins_k2_w1, FifoT, FC, Some(4), HEAVY, 2, false, false, false, OP_INSERT, 2, 1, false);
st!(raw_fifo_c4_ins_k2_w2, FifoT, FC, Some(4), HEAVY, 2, false, false, false, OP_INSERT, 2, 2, false);
// a genuine REPLACE with a different weight: the old copy must still be resident when the new one is linked, i.e. there is
// room (capacity 4, usage 3) or the eviction loop stops before it reaches the old copy (k1 is the younger entry)
st!(raw_fifo_c4_ins_k0_w1, FifoT, FC, Some(4), HEAVY, 2, false, false, true, OP_INSERT, 0, 1, false);
st!(raw_fifo_c4_ins_k0_w0, FifoT, FC, Some(4), HEAVY, 2, false, false, true, OP_INSERT, 0, 0, false);
st!(raw_fifo_c4_ins_k1_w2, FifoT, FC, Some(4), HEAVY, 2, false, false, true, OP_INSERT, 1, 2, false);
st!(raw_fifo_c4_ins_k1_w3, FifoT, FC, Some(4), HEAVY, 2, false, false, true, OP_INSERT, 1, 3, false);
st!(raw_lru_c4_ins_k0_w1, LruT, LRU_CFG, Some(4), HEAVY, 2, false, true, true, OP_INSERT, 0, 1, false);
st!(raw_lru_c4_ins_k1_w3, LruT, LRU_CFG, Some(4), HEAVY, 2, false, true, true, OP_INSERT, 1, 3, false);
st!(raw_sieve_c4_ins_k0_w1, SieveT, SieveConfig {}, Some(4), HEAVY, 2, false, false, true, OP_INSERT, 0, 1, false);
st!(raw_fifo_c2_p0_ins_k0_w2, FifoT, FC, Some(2), [None; 3], 0, false, false, true, OP_INSERT, 0, 2, false);
st!(raw_fifo_c2_p0_ins_k0_w3, FifoT, FC, Some(2), [None; 3], 0, false, false, true, OP_INSERT, 0, 3, false);
st!(raw_fifo_c0_p0_ins_k0_w0, FifoT, FC, Some(0), [None; 3], 0, false, false, false, OP_INSERT, 0, 0, false);
st!(raw_fifo_c0_p0_ins_k0_w1, FifoT, FC, Some(0), [None; 3], 0, false, false, false, OP_INSERT, 0, 1, false);

// ---- LRU (pins looked-up entries) ----
const LRU_CFG: LruConfig = LruConfig { high_priority_pool_ratio: 0.5 };
st!(raw_lru_c2_ins_k2_w1, LruT, LRU_CFG, Some(2), FULL2, 2, false, true, true, OP_INSERT, 2, 1, false);
st!(raw_lru_c2_ins_k2_w2, LruT, LRU_CFG, Some(2), FULL2, 2, false, true, true, OP_INSERT, 2, 2, false);
st!(raw_lru_c2_ins_k2_w3, LruT, LRU_CFG, Some(2), FULL2, 2, false, true, true, OP_INSERT, 2, 3, false);
st!(raw_lru_c2_ins_k0_w1, LruT, LRU_CFG, Some(2), FULL2, 2, false, true, true, OP_INSERT, 0, 1, false);
st!(raw_lru_c2_ins_k1_w2, LruT, LRU_CFG, Some(2), FULL2, 2, false, true, true, OP_INSERT, 1, 2, false);
st!(raw_lru_c2_inslow_k2_w1, LruT, LRU_CFG, Some(2), FULL2, 2, false, true, false, OP_INSERT_LOW, 2, 1, false);
st!(raw_lru_c2_hold_ins_k2_w1, LruT, LRU_CFG, Some(2), FULL2, 2, true, true, true, OP_INSERT, 2, 1, false);
st!(raw_lru_c2_hold_ins_k2_w2, LruT, LRU_CFG, Some(2), FULL2, 2, true, true, true, OP_INSERT, 2, 2, false);
st!(raw_lru_c2_hold_ins_k2_w3, LruT, LRU_CFG, Some(2), FULL2, 2, true, true, true, OP_INSERT, 2, 3, false);
st!(raw_lru_c2_hold_ins_k1_w1, LruT, LRU_CFG, Some(2), FULL2, 2, true, true, true, OP_INSERT, 1, 1, false);
// the insert handle of key 16 is still alive when it is looked up: the lookup must pin all the same
step_harness!(raw_lru_c2_keep_hold_ins_k2_w2, LruT, LRU_CFG, Sc { keep_insert_handle: true, lit: (2, false), ..sck(Some(2), FULL2, 2, true, true, false, OP_INSERT, 2) });
step_harness!(raw_lru_c2_keep_pin_droplast_k0_w2, LruT, LRU_CFG, Sc { keep_insert_handle: true, lit: (2, false), ..sck(Some(2), FULL2, 2, false, true, false, OP_PIN_DROP_KEPT_LAST, 0) });
step_harness!(raw_fifo_c2_keep_pin_droplast_k0_w2, FifoT, FC, Sc { keep_insert_handle: true, lit: (2, false), ..sck(Some(2), FULL2, 2, false, false, false, OP_PIN_DROP_KEPT_LAST, 0) });
step_harness!(raw_lru_c2_keep_hold_ins_k2_w1, LruT, LRU_CFG, Sc { keep_insert_handle: true, lit: (1, false), ..sck(Some(2), FULL2, 2, true, true, false, OP_INSERT, 2) });
step_harness!(raw_lru_c2_hold_evictall, LruT, LRU_CFG, sc(Some(2), FULL2, 2, true, true, true, OP_EVICT_ALL));
step_harness!(raw_lru_c2_hold_clear, LruT, LRU_CFG, sc(Some(2), FULL2, 2, true, true, false, OP_CLEAR));
step_harness!(raw_lru_c2_hold_remove_k0, LruT, LRU_CFG, sck(Some(2), FULL2, 2, true, true, false, OP_REMOVE, 0));
step_harness!(raw_lru_c2_hold_remove_k1, LruT, LRU_CFG, sck(Some(2), FULL2, 2, true, true, false, OP_REMOVE, 1));
step_harness!(raw_lru_c2_get_k0, LruT, LRU_CFG, sck(Some(2), FULL2, 2, false, true, false, OP_GET, 0));
st!(raw_lru_c2_touch_ins_k0_w1, LruT, LRU_CFG, Some(2), FULL2, 2, false, true, false, OP_TOUCH_INSERT, 0, 1, false);
st!(raw_lru_c2_touch_ins_k0_w2, LruT, LRU_CFG, Some(2), FULL2, 2, false, true, false, OP_TOUCH_INSERT, 0, 2, false);
st!(raw_lru_c2_holdins_k0_w1, LruT, LRU_CFG, Some(2), FULL2, 2, false, true, false, OP_GET_HOLD_INSERT, 0, 1, false);
st!(raw_lru_c2_holdins_k0_w2, LruT, LRU_CFG, Some(2), FULL2, 2, false, true, false, OP_GET_HOLD_INSERT, 0, 2, false);
step_harness!(raw_lru_c2_clear, LruT, LRU_CFG, sc(Some(2), FULL2, 2, false, true, true, OP_CLEAR));

// ---- SIEVE ----
st!(raw_sieve_c2_ins_k2_w1, SieveT, SieveConfig {}, Some(2), FULL2, 2, false, false, true, OP_INSERT, 2, 1, false);
st!(raw_sieve_c2_ins_k2_w2, SieveT, SieveConfig {}, Some(2), FULL2, 2, false, false, true, OP_INSERT, 2, 2, false);
st!(raw_sieve_c2_ins_k0_w1, SieveT, SieveConfig {}, Some(2), FULL2, 2, false, false, true, OP_INSERT, 0, 1, false);
step_harness!(raw_sieve_c2_clear, SieveT, SieveConfig {}, sc(Some(2), FULL2, 2, false, false, false, OP_CLEAR));
st!(raw_sieve_c2_holdins_k0_w1, SieveT, SieveConfig {}, Some(2), FULL2, 2, false, false, false, OP_GET_HOLD_INSERT, 0, 1, false);
st!(raw_sieve_c2_touch_ins_k0_w2, SieveT, SieveConfig {}, Some(2), FULL2, 2, false, false, false, OP_TOUCH_INSERT, 0, 2, false);

// ---- S3-FIFO and w-TinyLFU instantiations of the same step scenarios (C05 / C13 / C18 speak of all five algorithms) ----
// S3-FIFO: the ghost queue's std HashSet is out of reach (SSE2 hashbrown inside the prebuilt std): `HashSet::insert` is a
// no-op, `GhostQueue::{contains,pop}` work on the VecDeque (see s3fifo.rs hook), `RandomState::new` returns fixed keys.
mod s3stubs {
    pub fn hs_insert<T: Eq + std::hash::Hash, S: std::hash::BuildHasher, A: std::alloc::Allocator>(_this: &mut std::collections::HashSet<T, S, A>, value: T) -> bool {
        std::mem::forget(value);
        true
    }
    pub fn random_state_fixed() -> std::hash::RandomState {
        unsafe { std::mem::transmute::<(u64, u64), std::hash::RandomState>((1, 2)) }
    }
}
macro_rules! step_harness_s3 {
    ($name:ident, $sc:expr) => {
        verif_harness! {
            #[kani::stub(crate::inflight::InflightManager::take, crate::inflight::InflightManager::verif_take_none)]
            #[kani::stub(std::collections::HashSet::insert, s3stubs::hs_insert)]
            #[kani::stub(std::hash::RandomState::new, s3stubs::random_state_fixed)]
            #[kani::stub(crate::eviction::s3fifo::GhostQueue::pop, crate::eviction::s3fifo::GhostQueue::verif_pop)]
            #[kani::stub(crate::eviction::s3fifo::GhostQueue::contains, crate::eviction::s3fifo::GhostQueue::verif_contains)]
            $name, 5, {
                step::<S3FifoT>(S3FifoConfig { small_queue_capacity_ratio: 0.5, ghost_queue_capacity_ratio: 1.0, small_to_main_freq_threshold: 1 }, $sc);
            }
        }
    };
}
step_harness_s3!(raw_s3fifo_c2_ins_k2_w1, Sc { lit: (1, false), ..sck(Some(2), FULL2, 2, false, false, true, OP_INSERT, 2) });
step_harness_s3!(raw_s3fifo_c2_ins_k2_w2, Sc { lit: (2, false), ..sck(Some(2), FULL2, 2, false, false, true, OP_INSERT, 2) });
step_harness_s3!(raw_s3fifo_c2_ins_k0_w2, Sc { lit: (2, false), ..sck(Some(2), FULL2, 2, false, false, true, OP_INSERT, 0) });
step_harness_s3!(raw_s3fifo_c2_insdisk_k0_w2, Sc { lit: (2, false), ..sck(Some(2), FULL2, 2, false, false, true, OP_INSERT_DISK, 0) });
step_harness_s3!(raw_s3fifo_c2_remove_k0, sck(Some(2), FULL2, 2, false, false, true, OP_REMOVE, 0));
step_harness_s3!(raw_s3fifo_c2_clear, sc(Some(2), FULL2, 2, false, false, true, OP_CLEAR));
step_harness_s3!(raw_s3fifo_c2_hold_ins_k2_w1, Sc { lit: (1, false), ..sck(Some(2), FULL2, 2, true, false, false, OP_INSERT, 2) });
step_harness_s3!(raw_s3fifo_c2_touch_ins_k0_w2, Sc { lit: (2, false), ..sck(Some(2), FULL2, 2, false, false, false, OP_TOUCH_INSERT, 0) });
// w-TinyLFU: smallest legal sketch (the sketch's accuracy is not the subject; it only orders window vs probation victims)
const LFU_CFG: LfuConfig = LfuConfig { window_capacity_ratio: 0.4, protected_capacity_ratio: 0.4, cmsketch_eps: 0.5, cmsketch_confidence: 0.5 };
step_harness!(raw_lfu_c2_ins_k2_w1, LfuT, LFU_CFG, Sc { lit: (1, false), ..sck(Some(2), FULL2, 2, false, false, true, OP_INSERT, 2) });
step_harness!(raw_lfu_c2_clear, LfuT, LFU_CFG, sc(Some(2), FULL2, 2, false, false, true, OP_CLEAR));

// =====================================================================================================================
// Shard-level harness on a stack-resident RawCacheShard: everything symbolic (capacity, weights, keys, operations).
// =====================================================================================================================
fn shard_ops<E>(cfg: E::Config, nops: usize)
where
    E: Eviction<Key = u64, Value = u64, Properties = HProps>,
{
    let capacity: usize = kani::any();
    kani::assume(capacity <= 4);
    let mut shard: RawCacheShard<E, IdHasher, VecIndexer<E>> = RawCacheShard {
        eviction: E::new(capacity, &cfg),
        indexer: Sentry::default(),
        usage: 0,
        entries: 0,
        capacity,
        inflights: Arc::new(Mutex::new(InflightManager::new())),
        metrics: Arc::new(Metrics::noop()),
        _event_listener: None,
    };
    // ghost: weight of the resident version of each key
    let mut gw: [Option<usize>; 3] = [None; 3];
    let mut evicted_any = false;
    let mut step = 0;
    while step < nops {
        let op: u8 = kani::any();
        kani::assume(op < 4);
        let ki = any_key_idx();
        let k = KEYS[ki];
        match op {
            0 => {
                let w: usize = kani::any();
                kani::assume(w <= 3);
                let phantom: bool = kani::any();
                let low: bool = kani::any();
                let props = HProps::default().with_phantom(phantom).with_hint(if low { Hint::Low } else { Hint::Normal });
                let record = Arc::new(Record::new(Data { key: k, value: step as u64, properties: props, hash: k >> 4, weight: w }));
                let mut notifiers = Vec::new();
                let mut garbages: Vec<(Event, Arc<Record<E>>)> = Vec::with_capacity(5);
                let g0 = 0;
                let pre_usage = shard.usage;
                shard.emplace(record.clone(), &mut garbages, &mut notifiers);
                // events of this emplace: weights of evicted records, in order
                let mut freed = 0usize;
                let mut gi = g0;
                while gi < garbages.len() {
                    let (ev, r) = (&garbages[gi].0, &garbages[gi].1);
                    let rk = *r.key();
                    let ri = if rk == 16 { 0 } else if rk == 17 { 1 } else { 2 };
                    if *ev == Event::Evict {
                        // C05-A2 minimality: every eviction happened while usage (old copy included) + new weight > capacity
                        assert!(!phantom, "phantom insert evicted by capacity");
                        assert!(pre_usage - freed + w > capacity, "C05-A2: evicted although usage + weight no longer exceeded the capacity");
                        freed += r.weight();
                        evicted_any = true;
                        gw[ri] = None;
                    } else if *ev == Event::Replace {
                        assert!(ri == ki, "Replace event for another key");
                        gw[ri] = None;
                    }
                    gi += 1;
                }
                if phantom {
                    gw[ki] = None;
                    assert!(shard.indexer.get(k >> 4, &k).is_none(), "C01-S1: phantom insert left the key resident");
                } else {
                    gw[ki] = Some(w);
                    // afterwards within capacity unless the new entry alone is larger (nothing is pinned here)
                    if w <= capacity {
                        assert!(shard.usage <= capacity, "C05-A2: over capacity after insert");
                    }
                }
                std::mem::forget(garbages);
                std::mem::forget(notifiers);
                std::mem::forget(record);
            }
            1 => {
                let r = shard.remove(k >> 4, &k);
                assert!(r.is_some() == gw[ki].is_some(), "remove result disagrees with the resident set");
                gw[ki] = None;
                std::mem::forget(r);
            }
            2 => {
                let mut g = Vec::with_capacity(4);
                shard.clear(&mut g);
                gw = [None; 3];
                assert!(shard.usage == 0, "C05-A3: clear() leaves usage != 0");
                assert!(shard.entries == 0, "C05-A3: clear() leaves entries != 0");
                std::mem::forget(g);
            }
            _ => {
                let mut garbages: Vec<(Event, Arc<Record<E>>)> = Vec::with_capacity(5);
                shard.evict(0, &mut garbages);
                std::mem::forget(garbages);
                // evict(0) stops as soon as usage is 0: entries of weight 0 behind the last weighted one may stay
                assert!(shard.usage == 0, "evict(0) leaves weight although nothing is pinned");
                let mut j = 0;
                while j < 3 {
                    if shard.indexer.get(KEYS[j] >> 4, &KEYS[j]).is_some() {
                        assert!(gw[j] == Some(0), "evict(0) left a weighted entry resident");
                    } else {
                        gw[j] = None;
                    }
                    j += 1;
                }
            }
        }
        // C05-A1 on the shard
        let mut sum = 0;
        let mut cnt = 0;
        let mut j = 0;
        while j < 3 {
            let found = shard.indexer.get(KEYS[j] >> 4, &KEYS[j]).is_some();
            assert!(found == gw[j].is_some(), "resident set differs from the ghost");
            if let Some(w) = gw[j] {
                sum += w;
                cnt += 1;
            }
            j += 1;
        }
        assert!(shard.usage == sum, "C05-A1: usage != summed weight of findable entries");
        assert!(shard.entries == cnt, "C05-A1: entries != number of findable entries");
        step += 1;
    }
    kani::cover!(evicted_any, "opt: an eviction happened");
    kani::cover!(true, "end reached");
    std::mem::forget(shard);
}

macro_rules! shard_harness {
    ($name:ident, $e:ty, $cfg:expr, $n:expr) => {
        verif_harness! { #[kani::stub(crate::inflight::InflightManager::take, crate::inflight::InflightManager::verif_take_none)] $name, 6, {
            shard_ops::<$e>($cfg, $n);
        } }
    };
}
shard_harness!(shard_fifo_2, FifoT, FifoConfig::default(), 2);
shard_harness!(shard_fifo_3, FifoT, FifoConfig::default(), 3);
shard_harness!(shard_lru_2, LruT, LRU_CFG, 2);
shard_harness!(shard_lru_3, LruT, LRU_CFG, 3);
shard_harness!(shard_sieve_2, SieveT, SieveConfig {}, 2);
shard_harness!(shard_sieve_3, SieveT, SieveConfig {}, 3);

// C05-A4: shard capacities add up to the configured capacity and differ by at most one.
verif_harness! { c05_a4_capacity_split, 6, {
    let total: usize = kani::any();
    let shards: usize = kani::any();
    kani::assume(shards >= 1 && shards <= 4);
    let mut sum: usize = 0;
    let mut lo = usize::MAX;
    let mut hi = 0usize;
    let mut i = 0;
    while i < 4 {
        if i < shards {
            let c = Cache::<FifoT>::shard_capacity_for(total, shards, i);
            sum = sum.checked_add(c).expect("shard capacities overflow");
            if c < lo { lo = c; }
            if c > hi { hi = c; }
        }
        i += 1;
    }
    assert!(sum == total, "C05-A4: shard capacities do not add up to the configured capacity");
    assert!(hi - lo <= 1, "C05-A4: shard capacities differ by more than one");
    kani::cover!(shards == 4 && total % 4 == 3, "uneven split");
    kani::cover!(true, "end reached");
} }

impl<E, S, I> InflightManager<E, S, I>
where
    E: Eviction,
    E::Key: foyer_common::code::Key,
    S: HashBuilder,
    I: Indexer<Eviction = E>,
{
    /// Stub for `take` in harnesses that never enqueue a fetch: the in-flight table is empty, `take` returns None.
    #[expect(clippy::type_complexity)]
    pub fn verif_take_none<Q>(
        &mut self,
        _hash: u64,
        _key: &Q,
        _id: Option<usize>,
    ) -> Option<Vec<Notifier<Option<RawCacheEntry<E, S, I>>>>>
    where
        Q: Hash + Equivalent<E::Key> + ?Sized,
    {
        None
    }
}

// =====================================================================================================================
// C16: user callbacks (listener, weighter, filter, destructors of values) re-enter the same single-shard cache.
// Oracle: (a) no parking_lot slow path is reached - the stubs panic with "deadlock: ..." when a lock is requested while
// it is held, which in a sequential harness is exactly a self-deadlock; (b) the outer and the nested operation return.
// =====================================================================================================================
pub struct Re {
    cache: Cell<*const ()>,
    busy: Cell<bool>,
    action: u8,
    key: u64,
    calls: Cell<usize>,
}
unsafe impl Send for Re {}
unsafe impl Sync for Re {}

/// Value type whose destructor calls back into the cache it was stored in.
pub struct DropVal<const ALG: u8> {
    /// payload (symbolic for the entry the outer operation inserts)
    v: u64,
    /// weight and filter outcome are LITERALS (they decide how many evictions happen, see `Sc::lit`)
    w: usize,
    rej: bool,
    re: *const Re,
    armed: bool,
}
unsafe impl<const ALG: u8> Send for DropVal<ALG> {}
unsafe impl<const ALG: u8> Sync for DropVal<ALG> {}
impl<const ALG: u8> Drop for DropVal<ALG> {
    fn drop(&mut self) {
        if self.armed && !self.re.is_null() {
            fire::<ALG>(unsafe { &*self.re });
        }
    }
}

type FifoD = Fifo<u64, DropVal<0>, HProps>;
type LruD = Lru<u64, DropVal<1>, HProps>;
type SieveD = Sieve<u64, DropVal<2>, HProps>;

fn nested<E, const ALG: u8>(re: &Re)
where
    E: Eviction<Key = u64, Value = DropVal<ALG>, Properties = HProps>,
{
    let cache: &Cache<E> = unsafe { &*(re.cache.get() as *const Cache<E>) };
    // The nested operation always takes the shard's WRITE lock (the strictest probe: it conflicts with a held read lock
    // and with a held write lock) and always returns a handle (no Option: see `Sc::key` for why optional handles are
    // avoided).  action 0: insert of a fresh weight-0 key; 1: insert that replaces resident key 17; 2: disk-only insert.
    match re.action {
        0 => {
            let e = cache.insert(48, DropVal { v: 0, w: 0, rej: false, re: std::ptr::null(), armed: false });
            drop(e);
        }
        1 => {
            let e = cache.insert(17, DropVal { v: 1, w: 1, rej: false, re: std::ptr::null(), armed: false });
            drop(e);
        }
        _ => {
            let e = cache.insert_with_properties(48, DropVal { v: 0, w: 0, rej: false, re: std::ptr::null(), armed: false }, HProps::default().with_location(Location::OnDisk));
            drop(e);
        }
    }
}

fn fire<const ALG: u8>(re: &Re) {
    if re.busy.get() || re.cache.get().is_null() {
        return;
    }
    re.busy.set(true);
    match ALG {
        0 => nested::<Fifo<u64, DropVal<ALG>, HProps>, ALG>(re),
        1 => nested::<Lru<u64, DropVal<ALG>, HProps>, ALG>(re),
        _ => nested::<Sieve<u64, DropVal<ALG>, HProps>, ALG>(re),
    }
    re.calls.set(re.calls.get() + 1);
    re.busy.set(false);
}

pub struct ReListener<const ALG: u8> {
    re: Arc<Re>,
}
impl<const ALG: u8> EventListener for ReListener<ALG> {
    type Key = u64;
    type Value = DropVal<ALG>;
    fn on_leave(&self, _reason: Event, _key: &u64, _value: &DropVal<ALG>) {
        fire::<ALG>(&self.re);
    }
}

pub const CB_LISTENER: u8 = 1;
pub const CB_WEIGHTER: u8 = 2;
pub const CB_FILTER: u8 = 4;
pub const CB_DROP: u8 = 8;

fn c16<E, const ALG: u8>(cfg: E::Config, cbs: u8, op: u8, action: Option<u8>, lit_w: usize, ins_key: usize)
where
    E: Eviction<Key = u64, Value = DropVal<ALG>, Properties = HProps>,
{
    let action = match action {
        Some(a) => a,
        None => {
            let a: u8 = kani::any();
            kani::assume(a < 3);
            a
        }
    };
    let re = Arc::new(Re { cache: Cell::new(std::ptr::null()), busy: Cell::new(false), action, key: 0, calls: Cell::new(0) });
    let (rw, rf) = (re.clone(), re.clone());
    let (cw, cf) = (cbs & CB_WEIGHTER != 0, cbs & CB_FILTER != 0);
    let cache: Cache<E> = RawCache::new(RawCacheConfig {
        capacity: 2,
        shards: 1,
        eviction_config: cfg,
        hash_builder: IdHasher,
        weighter: Arc::new(move |_k: &u64, v: &DropVal<ALG>| {
            if cw {
                fire::<ALG>(&rw);
            }
            v.w
        }),
        filter: Arc::new(move |_k: &u64, v: &DropVal<ALG>| {
            if cf {
                fire::<ALG>(&rf);
            }
            !v.rej
        }),
        event_listener: if cbs & CB_LISTENER != 0 {
            Some(Arc::new(ReListener::<ALG> { re: re.clone() }) as Arc<dyn EventListener<Key = u64, Value = DropVal<ALG>>>)
        } else {
            None
        },
        metrics: Arc::new(Metrics::noop()),
    });
    std::mem::forget(cache.clone()); // spare reference, see mk_cache
    let armed = cbs & CB_DROP != 0;
    let rp: *const Re = Arc::as_ptr(&re);
    // pre-state: full cache (two entries of weight 1); callbacks are not armed yet (cache pointer is null)
    drop(cache.insert(KEYS[0], DropVal { v: 1, w: 1, rej: false, re: rp, armed }));
    drop(cache.insert(KEYS[1], DropVal { v: 1, w: 1, rej: false, re: rp, armed }));
    re.cache.set(&cache as *const Cache<E> as *const ());

    // insert / disk-only insert: symbolic key; remove / get return optional handles: concrete resident key 16
    // keys are concrete (see `Sc::key`): inserts add the absent key 32 (evicting at capacity), remove / get use resident 16;
    // the inserted value (weight 0..3, filter bit) is symbolic
    let k = if op == OP_INSERT || op == OP_INSERT_DISK { KEYS[ins_key] } else { KEYS[0] };
    match op {
        OP_INSERT => {
            // literal weight 1 (one eviction at capacity) or 2 (two), symbolic payload
            let v: u64 = kani::any();
            let e = cache.insert(k, DropVal { v, w: lit_w, rej: false, re: rp, armed });
            drop(e);
        }
        OP_INSERT_DISK => {
            let e = cache.insert_with_properties(k, DropVal { v: kani::any(), w: lit_w, rej: false, re: rp, armed }, HProps::default().with_location(Location::OnDisk));
            drop(e);
        }
        OP_REMOVE => {
            let r = cache.remove(&k);
            drop(r);
        }
        OP_GET => {
            let g = cache.get(&k);
            drop(g);
        }
        OP_CLEAR => cache.clear(),
        _ => cache.evict_all(),
    }
    kani::cover!(re.calls.get() > 0, "a callback re-entered the cache");
    kani::cover!(true, "end reached");
    re.cache.set(std::ptr::null());
    std::mem::forget(cache);
    std::mem::forget(re);
}

macro_rules! c16h {
    ($name:ident, $e:ty, $alg:expr, $cfg:expr, $cbs:expr, $op:expr, $action:expr) => {
        c16h!($name, $e, $alg, $cfg, $cbs, $op, $action, 2);
    };
    ($name:ident, $e:ty, $alg:expr, $cfg:expr, $cbs:expr, $op:expr, $action:expr, $key:expr) => {
        verif_harness! { #[kani::stub(crate::inflight::InflightManager::take, crate::inflight::InflightManager::verif_take_none)] $name, 5, {
            c16::<$e, $alg>($cfg, $cbs, $op, $action, 1, $key);
        } }
    };
}
// listener re-enters with a write-locking operation on every notifying path
c16h!(c16_fifo_listener_insert, FifoD, 0, FifoConfig::default(), CB_LISTENER, OP_INSERT, Some(0));
c16h!(c16_fifo_listener_remove, FifoD, 0, FifoConfig::default(), CB_LISTENER, OP_REMOVE, Some(0));
c16h!(c16_fifo_listener_clear, FifoD, 0, FifoConfig::default(), CB_LISTENER, OP_CLEAR, Some(0));
c16h!(c16_fifo_listener_evictall, FifoD, 0, FifoConfig::default(), CB_LISTENER, OP_EVICT_ALL, Some(0));
c16h!(c16_fifo_listener_insdisk, FifoD, 0, FifoConfig::default(), CB_LISTENER, OP_INSERT_DISK, Some(0));
// weighter + filter re-enter during insert
c16h!(c16_fifo_wf_insert, FifoD, 0, FifoConfig::default(), CB_WEIGHTER | CB_FILTER, OP_INSERT, Some(0));
// value destructor re-enters (records must be released outside the critical section)
c16h!(c16_fifo_drop_insert, FifoD, 0, FifoConfig::default(), CB_DROP, OP_INSERT, Some(0));
c16h!(c16_fifo_drop_remove, FifoD, 0, FifoConfig::default(), CB_DROP, OP_REMOVE, Some(0));
c16h!(c16_fifo_drop_clear, FifoD, 0, FifoConfig::default(), CB_DROP, OP_CLEAR, Some(0));
c16h!(c16_fifo_drop_evictall, FifoD, 0, FifoConfig::default(), CB_DROP, OP_EVICT_ALL, Some(0));
// insert / disk-only insert OVER A RESIDENT key: the replaced record's destructor and notification must run outside the lock
c16h!(c16_fifo_drop_replace, FifoD, 0, FifoConfig::default(), CB_DROP, OP_INSERT, Some(0), 0);
// ... over the YOUNGER resident key 17: the eviction loop frees the older key 16 and stops, so the old copy of 17 is still
// resident and goes through the Replace branch of `emplace` (over key 16 the old copy is evicted before the replace)
c16h!(c16_fifo_drop_replace_younger, FifoD, 0, FifoConfig::default(), CB_DROP, OP_INSERT, Some(0), 1);
c16h!(c16_lru_drop_replace_younger, LruD, 1, LRU_CFG, CB_DROP, OP_INSERT, Some(0), 1);
c16h!(c16_fifo_listener_replace_younger, FifoD, 0, FifoConfig::default(), CB_LISTENER, OP_INSERT, Some(0), 1);
c16h!(c16_fifo_drop_insdisk_resident, FifoD, 0, FifoConfig::default(), CB_DROP, OP_INSERT_DISK, Some(0), 0);
c16h!(c16_fifo_listener_insdisk_resident, FifoD, 0, FifoConfig::default(), CB_LISTENER, OP_INSERT_DISK, Some(0), 1);
c16h!(c16_lru_drop_insdisk_resident, LruD, 1, LRU_CFG, CB_DROP, OP_INSERT_DISK, Some(0), 0);
// symbolic nested action (fresh insert / replacing insert / disk-only insert)
c16h!(c16_fifo_listener_insert_anyaction, FifoD, 0, FifoConfig::default(), CB_LISTENER, OP_INSERT, None);
// LRU: lookups and handle drops take the write lock
c16h!(c16_lru_listener_insert, LruD, 1, LRU_CFG, CB_LISTENER, OP_INSERT, Some(0));
c16h!(c16_lru_drop_insert, LruD, 1, LRU_CFG, CB_DROP, OP_INSERT, Some(0));
c16h!(c16_lru_listener_clear, LruD, 1, LRU_CFG, CB_LISTENER, OP_CLEAR, Some(0));
c16h!(c16_sieve_listener_insert, SieveD, 2, SieveConfig {}, CB_LISTENER, OP_INSERT, Some(0));
c16h!(c16_sieve_drop_insert, SieveD, 2, SieveConfig {}, CB_DROP, OP_INSERT, Some(0));

// =====================================================================================================================
// C11-X2 (fetch task side): a `RawFetch` that is parked in its disk-lookup (FetchOptional) or origin (FetchRequired) phase
// while `insert(k, v_new)` completes.  The insert takes the in-flight entry over and sets the close flag (X1 decides that
// the leader holds THAT flag); here the fetch task is built directly in the parked state with a symbolic flag and then
// polled with the late answer.  Oracle: flag set => the late result is dropped and `get(k)` still returns v_new; flag clear
// => the fetched value is inserted (the task is not simply dead).  The in-flight table is empty here (`take` stubbed None).
// =====================================================================================================================
fn x2(required_phase: bool, closed: bool) {
    let force = Arc::new(Force::new());
    force.set(Some(1), Some(false));
    let cache: Cache<FifoT> = mk_cache(2, FifoConfig::default(), None, None, force.clone());
    let k = KEYS[0];
    let v_new: u64 = kani::any();
    let v_old: u64 = kani::any();
    kani::assume(v_new != v_old);
    drop(cache.insert(k, v_new));
    // the flag is literal per harness (a symbolic flag makes the insert conditional: merged heap shapes)
    let target = FetchTarget::Entry { value: v_old, properties: HProps::default() };
    let state: RawFetchState<FifoT, IdHasher, VecIndexer<FifoT>, ()> = if required_phase {
        RawFetchState::FetchRequired { required_fetch: Box::pin(std::future::ready(Ok(target))) }
    } else {
        RawFetchState::FetchOptional { optional_fetch: Box::pin(std::future::ready(Ok(Some(target)))), required_fetch_builder: None }
    };
    let inflights = cache.inner.shards[0].read().inflights.clone();
    let fetch = RawFetch { state, id: 0, hash: k >> 4, key: Some(k), ctx: (), cache: cache.clone(), inflights, close: Arc::new(AtomicBool::new(closed)) };
    let mut fetch = Box::pin(fetch);
    let waker = noop_waker();
    let mut cx = std::task::Context::from_waker(&waker);
    let r = fetch.as_mut().poll(&mut cx);
    assert!(r.is_ready(), "C06/C11: fetch task did not finish although its fetch had resolved");
    let got = cache.get(&k).expect("C11: key missing after insert");
    if closed {
        assert!(*got.value() == v_new, "C11: a late fetch result replaced the explicitly inserted value");
    } else {
        assert!(*got.value() == v_old, "fetch result was not inserted although nothing took the fetch over");
    }
    kani::cover!(true, "end reached");
    std::mem::forget(got);
    std::mem::forget(fetch);
    std::mem::forget(cache);
}
fn noop_waker() -> std::task::Waker {
    use std::task::{RawWaker, RawWakerVTable, Waker};
    fn clone(_: *const ()) -> RawWaker {
        RawWaker::new(std::ptr::null(), &VTABLE)
    }
    fn noop(_: *const ()) {}
    static VTABLE: RawWakerVTable = RawWakerVTable::new(clone, noop, noop, noop);
    unsafe { Waker::from_raw(RawWaker::new(std::ptr::null(), &VTABLE)) }
}
verif_harness! { #[kani::stub(crate::inflight::InflightManager::take, crate::inflight::InflightManager::verif_take_none)] c11_x2_late_disk_hit, 5, { x2(false, true); } }
verif_harness! { #[kani::stub(crate::inflight::InflightManager::take, crate::inflight::InflightManager::verif_take_none)] c11_x2_late_origin_result, 5, { x2(true, true); } }
verif_harness! { #[kani::stub(crate::inflight::InflightManager::take, crate::inflight::InflightManager::verif_take_none)] c11_x2_disk_hit_not_closed, 5, { x2(false, false); } }
verif_harness! { #[kani::stub(crate::inflight::InflightManager::take, crate::inflight::InflightManager::verif_take_none)] c11_x2_origin_result_not_closed, 5, { x2(true, false); } }

// =====================================================================================================================
// C17: the real HashTableIndexer (hashbrown, portable groups via --cfg miri) with keys that collide on all 64 hash bits
// =====================================================================================================================
verif_harness! { c17_hash_table_indexer_collision, 8, {
    use crate::indexer::Indexer as _;
    let mk = |k: u64, v: u64| -> Arc<Record<FifoT>> {
        Arc::new(Record::new(Data { key: k, value: v, properties: HProps::default(), hash: k >> 4, weight: 1 }))
    };
    let mut ix: HashTableIndexer<FifoT> = HashTableIndexer::default();
    let (a, b): (u64, u64) = if kani::any() { (16, 17) } else { (17, 16) };
    let va: u64 = kani::any();
    let vb: u64 = kani::any();
    let ra = mk(a, va);
    let rb = mk(b, vb);
    assert!(ix.insert(ra.clone()).is_none());
    assert!(ix.insert(rb.clone()).is_none(), "C17: inserting a colliding key replaced the other key's entry");
    assert!(Arc::ptr_eq(ix.get(1, &a).expect("C17: first of two colliding keys lost"), &ra), "C17: lookup returned the colliding key's record");
    assert!(Arc::ptr_eq(ix.get(1, &b).expect("C17: second of two colliding keys lost"), &rb), "C17: lookup returned the colliding key's record");
    assert!(ix.get(1, &18u64).is_none() && ix.get(2, &32u64).is_none());
    // overwrite one key: the old record of THAT key comes back, the twin stays
    let ra2 = mk(a, va ^ 1);
    let old = ix.insert(ra2.clone()).expect("overwrite must return the old record");
    assert!(Arc::ptr_eq(&old, &ra), "C17: overwrite evicted the colliding key's record");
    assert!(Arc::ptr_eq(ix.get(1, &b).unwrap(), &rb));
    // remove the twin (symbolic choice which one)
    let (x, y, rx_, ry) = if kani::any() { (a, b, &ra2, &rb) } else { (b, a, &rb, &ra2) };
    let removed = ix.remove(1, &x).expect("C17: remove missed a present colliding key");
    assert!(Arc::ptr_eq(&removed, rx_), "C17: remove took the colliding key's record");
    assert!(ix.get(1, &x).is_none());
    assert!(Arc::ptr_eq(ix.get(1, &y).expect("C17: removing one key removed its twin"), ry));
    kani::cover!(true, "end reached");
    std::mem::forget((ra, rb, ra2, old, removed));
    std::mem::forget(ix);
} }

/// Smaller rung of the same obligation: two colliding keys inserted, both looked up.
verif_harness! { c17_hash_table_indexer_two, 8, {
    use crate::indexer::Indexer as _;
    let mk = |k: u64, v: u64| -> Arc<Record<FifoT>> {
        Arc::new(Record::new(Data { key: k, value: v, properties: HProps::default(), hash: k >> 4, weight: 1 }))
    };
    let mut ix: HashTableIndexer<FifoT> = HashTableIndexer::default();
    let ra = mk(16, kani::any());
    let rb = mk(17, kani::any());
    assert!(ix.insert(ra.clone()).is_none());
    assert!(ix.insert(rb.clone()).is_none(), "C17: inserting a colliding key replaced the other key's entry");
    assert!(Arc::ptr_eq(ix.get(1, &16u64).expect("C17: first of two colliding keys lost"), &ra), "C17: lookup returned the colliding key's record");
    assert!(Arc::ptr_eq(ix.get(1, &17u64).expect("C17: second of two colliding keys lost"), &rb), "C17: lookup returned the colliding key's record");
    kani::cover!(true, "end reached");
    std::mem::forget((ra, rb));
    std::mem::forget(ix);
} }

// native replay of counterexamples: bin/check writes the unit test Kani generated (`--concrete-playback=print`) into the
// included file and runs `cargo kani playback`; the file is empty otherwise.
#[allow(unused_imports, dead_code)]
mod playback {
    use super::*;
    include!("/verif/harness/playback/foyer-memory/raw__verif_kani.rs");
}

