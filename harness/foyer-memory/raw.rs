// Kani harnesses for foyer-memory/src/raw.rs (child module `verif_kani` of `raw`, cfg(kani) only).
// Properties served: C05 (accounting), C13 (leave events / pipe), C16 (re-entrancy), C17 (collisions),
// C18 (handles), C12-P1 (phantom advice).  See /verif/DESIGN.md section 4.
#![allow(dead_code, unused_imports, unused_variables, clippy::all)]

use std::cell::{Cell, RefCell};

use foyer_common::properties::{Age, Hint};

use super::*;
use crate::{
    eviction::{
        fifo::{Fifo, FifoConfig},
        lfu::{Lfu, LfuConfig},
        lru::{Lru, LruConfig},
        s3fifo::{S3Fifo, S3FifoConfig},
        sieve::{Sieve, SieveConfig},
    },
    indexer::hash_table::HashTableIndexer,
};

#[allow(dead_code, unused)]
mod stubs {
    include!("/verif/harness/common/stubs.rs");
}
include!("/verif/harness/common/macros.rs");
include!("/verif/harness/foyer-memory/support.rs");

// ---------------------------------------------------------------------------------------------
// Generic op-sequence driver (C05 A1/A2/A3, C13, C18).
// ---------------------------------------------------------------------------------------------

pub const KEYS: [u64; 3] = [16, 17, 32]; // 16 and 17 collide on all 64 hash bits under IdHasher, 32 does not.

fn any_key_idx() -> usize {
    let i: usize = kani::any();
    kani::assume(i < 3);
    i
}

/// value layout: bits 0..1 weight, bit 2 "filter rejects", bits 3.. version payload
fn weight_of(v: u64) -> usize {
    (v & 3) as usize
}

pub struct Ghost {
    /// latest non-phantom value inserted for the key and not since removed / cleared / phantom-replaced
    pub last: [Option<u64>; 3],
}

type Cache<E> = RawCache<E, IdHasher, VecIndexer<E>>;
type Entry<E> = RawCacheEntry<E, IdHasher, VecIndexer<E>>;

fn mk_cache<E>(capacity: usize, cfg: E::Config, log: Option<Arc<EventLog>>, pipe: Option<Arc<RecPipe>>) -> Cache<E>
where
    E: Eviction<Key = u64, Value = u64, Properties = HProps>,
{
    let c = RawCache::new(RawCacheConfig {
        capacity,
        shards: 1,
        eviction_config: cfg,
        hash_builder: IdHasher,
        weighter: Arc::new(|_k: &u64, v: &u64| weight_of(*v)),
        filter: Arc::new(|_k: &u64, v: &u64| v & 4 == 0),
        event_listener: log.map(|l| l as Arc<dyn EventListener<Key = u64, Value = u64>>),
        metrics: Arc::new(Metrics::noop()),
    });
    match pipe {
        Some(p) => c.with_pipe(p),
        None => c,
    }
}

/// C05-A1: after every op, usage()/entries() equal the sum / count over the keys a lookup still finds, where the
/// weight of a found key is the weight of the latest value inserted for it (ghost); lookups return the latest value.
fn check_accounting<E>(cache: &Cache<E>, ghost: &Ghost)
where
    E: Eviction<Key = u64, Value = u64, Properties = HProps>,
{
    let mut sum = 0usize;
    let mut cnt = 0usize;
    let mut i = 0;
    while i < 3 {
        if cache.contains(&KEYS[i]) {
            // a lookup never finds a key that was removed / cleared / only phantom-inserted
            assert!(ghost.last[i].is_some(), "C05/C01-S1: lookup finds a key that must be absent");
            let v = ghost.last[i].unwrap();
            sum += weight_of(v);
            cnt += 1;
        }
        i += 1;
    }
    assert!(cache.usage() == sum, "C05-A1: usage() != summed weight of findable entries");
    assert!(cache.entries() == cnt, "C05-A1: entries() != number of findable entries");
    // direct view of the shard (child-module access): same numbers
    let shard = cache.inner.shards[0].read();
    assert!(shard.usage == sum);
    assert!(shard.entries == cnt);
}

fn run_ops<E>(cfg: E::Config, nops: usize, op_mask: u32, pinning: bool)
where
    E: Eviction<Key = u64, Value = u64, Properties = HProps>,
{
    let capacity: usize = kani::any();
    kani::assume(capacity <= 4);
    let cache: Cache<E> = mk_cache(capacity, cfg, None, None);
    let mut ghost = Ghost { last: [None; 3] };
    let mut held: [Option<Entry<E>>; 2] = [None, None];
    let mut held_pinned_by_lookup = [false; 2];
    let mut evicted_seen = false;
    let mut replaced_seen = false;

    let mut step = 0;
    while step < nops {
        let op: u8 = kani::any();
        kani::assume(op < 9 && (op_mask >> op) & 1 == 1);
        let ki = any_key_idx();
        let k = KEYS[ki];
        match op {
            0 | 1 | 2 => {
                // insert: 0 normal, 1 low-priority hint, 2 on-disk advice (phantom); bit 2 of value: filter rejects
                let v: u64 = kani::any();
                kani::assume(v < 64);
                let props = match op {
                    0 => HProps::default(),
                    1 => HProps::default().with_hint(Hint::Low),
                    _ => HProps::default().with_location(Location::OnDisk),
                };
                let phantom = op == 2 || (v & 4 != 0);
                let pre_usage = cache.usage();
                let pre_resident = [cache.contains(&KEYS[0]), cache.contains(&KEYS[1]), cache.contains(&KEYS[2])];
                let e = cache.insert_with_properties(k, v, props);
                assert!(*e.key() == k && *e.value() == v && e.weight() == weight_of(v));
                if phantom {
                    ghost.last[ki] = None;
                    assert!(!cache.contains(&k), "C12-P1/C01-S1: on-disk / filtered insert stays findable in memory");
                    assert!(e.is_outdated());
                } else {
                    if pre_resident[ki] {
                        replaced_seen = true;
                    }
                    ghost.last[ki] = Some(v);
                    assert!(cache.contains(&k), "insert: new entry not findable right after insert");
                    assert!(!e.is_outdated());
                    // C05-A2 (bound part): afterwards within capacity unless new entry alone is larger or pins exist
                    let w = weight_of(v);
                    let any_pin = pinning && (held_pinned_by_lookup[0] || held_pinned_by_lookup[1]);
                    if w <= capacity && !any_pin {
                        assert!(cache.usage() <= capacity, "C05-A2: over capacity after insert with nothing pinned");
                    }
                    // C05-A2 (necessity): if nothing had to go, nothing went
                    let old_w = if pre_resident[ki] { 0 } else { 0 };
                    if pre_usage + w <= capacity {
                        let mut j = 0;
                        while j < 3 {
                            if j != ki && pre_resident[j] {
                                assert!(cache.contains(&KEYS[j]), "C05-A2: eviction although usage + weight <= capacity");
                            }
                            j += 1;
                        }
                    } else {
                        let mut j = 0;
                        while j < 3 {
                            if j != ki && pre_resident[j] && !cache.contains(&KEYS[j]) {
                                evicted_seen = true;
                            }
                            j += 1;
                        }
                    }
                }
                drop(e);
            }
            3 => {
                let r = cache.remove(&k);
                match (&r, ghost.last[ki]) {
                    (Some(e), Some(v)) => assert!(*e.value() == v && *e.key() == k),
                    (Some(_), None) => panic!("remove returned an entry for an absent key"),
                    _ => {}
                }
                ghost.last[ki] = None;
                assert!(!cache.contains(&k));
                drop(r);
            }
            4 => {
                // get and hold
                let slot: usize = kani::any();
                kani::assume(slot < 2 && held[slot].is_none());
                if let Some(e) = cache.get(&k) {
                    assert!(*e.key() == k);
                    assert!(Some(*e.value()) == ghost.last[ki], "lookup returned a value that is not the latest insert");
                    held[slot] = Some(e);
                    held_pinned_by_lookup[slot] = true;
                }
            }
            5 => {
                let t = cache.touch(&k);
                assert!(t == cache.contains(&k));
            }
            6 => {
                let slot: usize = kani::any();
                kani::assume(slot < 2);
                held[slot] = None;
                held_pinned_by_lookup[slot] = false;
            }
            7 => {
                cache.clear();
                ghost.last = [None; 3];
                assert!(cache.usage() == 0, "C05-A3: clear() leaves usage != 0");
                assert!(cache.entries() == 0, "C05-A3: clear() leaves entries != 0");
            }
            _ => {
                cache.evict_all();
                if !(pinning && (held_pinned_by_lookup[0] || held_pinned_by_lookup[1])) {
                    assert!(cache.usage() == 0 && cache.entries() == 0, "evict_all leaves entries although nothing is pinned");
                }
            }
        }
        // ghost entries that are no longer resident were evicted: forget them
        let mut j = 0;
        while j < 3 {
            if ghost.last[j].is_some() && !cache.contains(&KEYS[j]) {
                ghost.last[j] = None;
            }
            j += 1;
        }
        check_accounting(&cache, &ghost);
        step += 1;
    }
    kani::cover!(evicted_seen, "an eviction happened");
    kani::cover!(replaced_seen, "a replace happened");
    kani::cover!(true, "end reached");
    std::mem::forget(held);
    std::mem::forget(cache);
}

pub const OPS_ALL: u32 = 0x1ff;
pub const OPS_NO_HOLD: u32 = 0x1ff & !(1 << 4) & !(1 << 6);

verif_harness! { #[kani::stub(crate::inflight::InflightManager::take, crate::inflight::InflightManager::verif_take_none)] c05_a1_fifo_3, 5, { run_ops::<Fifo<u64, u64, HProps>>(FifoConfig::default(), 3, OPS_ALL, false); } }
verif_harness! { #[kani::stub(crate::inflight::InflightManager::take, crate::inflight::InflightManager::verif_take_none)] c05_a1_fifo_2, 5, { run_ops::<Fifo<u64, u64, HProps>>(FifoConfig::default(), 2, OPS_ALL, false); } }
verif_harness! { #[kani::stub(crate::inflight::InflightManager::take, crate::inflight::InflightManager::verif_take_none)] c05_a1_fifo_1, 5, { run_ops::<Fifo<u64, u64, HProps>>(FifoConfig::default(), 1, OPS_ALL, false); } }

impl<E, S, I> InflightManager<E, S, I>
where
    E: Eviction,
    E::Key: foyer_common::code::Key,
    S: HashBuilder,
    I: Indexer<Eviction = E>,
{
    /// Stub for `take` in harnesses that never enqueue a fetch: the in-flight table is empty, `take` returns None.
    #[expect(clippy::type_complexity)]
    pub fn verif_take_none<Q>(
        &mut self,
        _hash: u64,
        _key: &Q,
        _id: Option<usize>,
    ) -> Option<Vec<Notifier<Option<RawCacheEntry<E, S, I>>>>>
    where
        Q: Hash + Equivalent<E::Key> + ?Sized,
    {
        None
    }
}

// ---- probes (temporary) ----
verif_harness! { probe_p0_metrics, 6, { let m = Arc::new(Metrics::noop()); std::mem::forget(m); } }
verif_harness! { probe_p1_mk, 6, { let c: Cache<Fifo<u64,u64,HProps>> = mk_cache(2, FifoConfig::default(), None, None); std::mem::forget(c); } }
verif_harness! { #[kani::stub(crate::inflight::InflightManager::take, crate::inflight::InflightManager::verif_take_none)] probe_p2_ins, 6, { let c: Cache<Fifo<u64,u64,HProps>> = mk_cache(2, FifoConfig::default(), None, None); let v: u64 = kani::any(); kani::assume(v < 64); let e = c.insert(16, v); assert!(c.usage() == weight_of(v) || v & 4 != 0); std::mem::forget(e); std::mem::forget(c); } }
verif_harness! { probe_q1_refs, 6, {
    let r = Arc::new(Record::<Fifo<u64,u64,HProps>>::new(Data { key: 1, value: 2, properties: HProps::default(), hash: 3, weight: 1 }));
    r.inc_refs(1); assert!(r.refs() == 1); std::mem::forget(r); } }
verif_harness! { probe_q2_evict, 6, {
    let c: Cache<Fifo<u64,u64,HProps>> = mk_cache(2, FifoConfig::default(), None, None);
    let mut g = vec![];
    c.inner.shards[0].write().evict(0, &mut g);
    std::mem::forget(g); std::mem::forget(c); } }
verif_harness! { probe_q3_fifo, 6, {
    let mut f = Fifo::<u64,u64,HProps>::new(2, &FifoConfig::default());
    let r = Arc::new(Record::<Fifo<u64,u64,HProps>>::new(Data { key: 1, value: 2, properties: HProps::default(), hash: 3, weight: 1 }));
    f.push(r.clone());
    let p = f.pop();
    assert!(p.is_some());
    std::mem::forget(p); std::mem::forget(r); std::mem::forget(f); } }
verif_harness! { probe_q4_idx, 6, {
    let mut ix: Sentry<VecIndexer<Fifo<u64,u64,HProps>>> = Sentry::default();
    let r = Arc::new(Record::<Fifo<u64,u64,HProps>>::new(Data { key: 1, value: 2, properties: HProps::default(), hash: 3, weight: 1 }));
    let o = ix.insert(r.clone());
    assert!(o.is_none());
    assert!(ix.get(3, &1u64).is_some());
    std::mem::forget(r); std::mem::forget(ix); } }
verif_harness! { probe_r1_vecpush, 6, {
    let r = Arc::new(Record::<Fifo<u64,u64,HProps>>::new(Data { key: 1, value: 2, properties: HProps::default(), hash: 3, weight: 1 }));
    let mut g: Vec<(Event, Arc<Record<Fifo<u64,u64,HProps>>>)> = vec![];
    if kani::any() { g.push((Event::Evict, r.clone())); }
    std::mem::forget(g); std::mem::forget(r); } }
verif_harness! { probe_r2_metrics, 6, {
    let m = Arc::new(Metrics::noop());
    if kani::any() { m.memory_evict.increase(1); m.memory_entries.decrease(1); }
    std::mem::forget(m); } }
verif_harness! { probe_r3_popremove, 6, {
    let c: Cache<Fifo<u64,u64,HProps>> = mk_cache(2, FifoConfig::default(), None, None);
    {
        let mut shard = c.inner.shards[0].write();
        if let Some(ev) = shard.eviction.pop() {
            let e = shard.indexer.remove(ev.hash(), ev.key()).unwrap();
            assert_eq!(Arc::as_ptr(&ev), Arc::as_ptr(&e));
            shard.usage -= ev.weight();
            std::mem::forget(e); std::mem::forget(ev);
        }
    }
    std::mem::forget(c); } }
fn mk_rec(k: u64, v: u64) -> Arc<Record<Fifo<u64,u64,HProps>>> {
    Arc::new(Record::new(Data { key: k, value: v, properties: HProps::default(), hash: k >> 4, weight: weight_of(v) }))
}
verif_harness! { #[kani::stub(crate::inflight::InflightManager::take, crate::inflight::InflightManager::verif_take_none)] probe_s1_emplace_guard, 4, {
    let c: Cache<Fifo<u64,u64,HProps>> = mk_cache(2, FifoConfig::default(), None, None);
    let v: u64 = kani::any(); kani::assume(v < 4);
    let r = mk_rec(16, v);
    let mut g = vec![]; let mut n = vec![];
    c.inner.shards[0].write().with(|mut shard| shard.emplace(r.clone(), &mut g, &mut n));
    assert!(c.usage() == weight_of(v));
    std::mem::forget(g); std::mem::forget(n); std::mem::forget(r); std::mem::forget(c); } }
verif_harness! { #[kani::stub(crate::inflight::InflightManager::take, crate::inflight::InflightManager::verif_take_none)] probe_s2_emplace_stack, 4, {
    let mut shard: RawCacheShard<Fifo<u64,u64,HProps>, IdHasher, VecIndexer<Fifo<u64,u64,HProps>>> = RawCacheShard {
        eviction: Fifo::new(2, &FifoConfig::default()), indexer: Sentry::default(), usage: 0, entries: 0, capacity: 2,
        inflights: Arc::new(Mutex::new(InflightManager::new())), metrics: Arc::new(Metrics::noop()), _event_listener: None };
    let v: u64 = kani::any(); kani::assume(v < 4);
    let r = mk_rec(16, v);
    let mut g = vec![]; let mut n = vec![];
    shard.emplace(r.clone(), &mut g, &mut n);
    assert!(shard.usage == weight_of(v));
    std::mem::forget(g); std::mem::forget(n); std::mem::forget(r); std::mem::forget(shard); } }
verif_harness! { #[kani::stub(crate::inflight::InflightManager::take, crate::inflight::InflightManager::verif_take_none)] probe_s3_insert_inner, 4, {
    let c: Cache<Fifo<u64,u64,HProps>> = mk_cache(2, FifoConfig::default(), None, None);
    let v: u64 = kani::any(); kani::assume(v < 4);
    let r = mk_rec(16, v);
    let e = c.insert_inner(r, Source::Outer);
    assert!(c.usage() == weight_of(v));
    std::mem::forget(e); std::mem::forget(c); } }
fn mk_cache_lit(capacity: usize) -> Cache<Fifo<u64,u64,HProps>> {
    let shard: RawCacheShard<Fifo<u64,u64,HProps>, IdHasher, VecIndexer<Fifo<u64,u64,HProps>>> = RawCacheShard {
        eviction: Fifo::new(capacity, &FifoConfig::default()), indexer: Sentry::default(), usage: 0, entries: 0, capacity,
        inflights: Arc::new(Mutex::new(InflightManager::new())), metrics: Arc::new(Metrics::noop()), _event_listener: None };
    RawCache { pipe: Arc::new(NoopPipe::default()), inner: Arc::new(RawCacheInner { shards: vec![RwLock::new(shard)], capacity,
        hash_builder: Arc::new(IdHasher), weighter: Arc::new(|_k: &u64, v: &u64| weight_of(*v)), filter: Arc::new(|_k: &u64, v: &u64| v & 4 == 0),
        metrics: Arc::new(Metrics::noop()), event_listener: None }) }
}
verif_harness! { #[kani::stub(crate::inflight::InflightManager::take, crate::inflight::InflightManager::verif_take_none)] probe_t4_lit, 5, {
    let c = mk_cache_lit(2);
    let v: u64 = kani::any(); kani::assume(v < 4);
    let r = mk_rec(16, v);
    let mut g = vec![]; let mut n = vec![];
    c.inner.shards[0].write().with(|mut shard| shard.emplace(r.clone(), &mut g, &mut n));
    assert!(c.usage() == weight_of(v));
    std::mem::forget(g); std::mem::forget(n); std::mem::forget(r); std::mem::forget(c); } }
verif_harness! { #[kani::stub(crate::inflight::InflightManager::take, crate::inflight::InflightManager::verif_take_none)] probe_t5_nousage, 5, {
    let c: Cache<Fifo<u64,u64,HProps>> = mk_cache(2, FifoConfig::default(), None, None);
    let v: u64 = kani::any(); kani::assume(v < 4);
    let r = mk_rec(16, v);
    let mut g = vec![]; let mut n = vec![];
    let u = c.inner.shards[0].write().with(|mut shard| { shard.emplace(r.clone(), &mut g, &mut n); shard.usage });
    assert!(u == weight_of(v));
    std::mem::forget(g); std::mem::forget(n); std::mem::forget(r); std::mem::forget(c); } }
fn s6_body() {
    let mut shard: RawCacheShard<Fifo<u64,u64,HProps>, IdHasher, VecIndexer<Fifo<u64,u64,HProps>>> = RawCacheShard {
        eviction: Fifo::new(2, &FifoConfig::default()), indexer: Sentry::default(), usage: 0, entries: 0, capacity: 2,
        inflights: Arc::new(Mutex::new(InflightManager::new())), metrics: Arc::new(Metrics::noop()), _event_listener: None };
    let mut g = vec![]; let mut n = vec![];
    let mut i = 0;
    while i < 2 {
        let v: u64 = kani::any(); kani::assume(v < 4);
        let ph: bool = kani::any();
        let k = if kani::any() { 16 } else { 17 };
        let r = Arc::new(Record::new(Data { key: k, value: v, properties: HProps::default().with_phantom(ph), hash: k >> 4, weight: weight_of(v) }));
        shard.emplace(r.clone(), &mut g, &mut n);
        std::mem::forget(r);
        i += 1;
    }
    assert!(shard.usage <= 6);
    std::mem::forget(g); std::mem::forget(n); std::mem::forget(shard);
}
verif_harness! { #[kani::stub(crate::inflight::InflightManager::take, crate::inflight::InflightManager::verif_take_none)] probe_u6_plain, 5, { s6_body(); } }
verif_harness! { #[kani::stub(crate::inflight::InflightManager::take, crate::inflight::InflightManager::verif_take_none)] #[kani::stub(std::alloc::handle_alloc_error, stubs::handle_alloc_error_panic)] probe_u7_allocstub, 5, { s6_body(); } }
verif_harness! { #[kani::stub(crate::inflight::InflightManager::take, crate::inflight::InflightManager::verif_take_none)] probe_v1_getmut, 5, {
    let mut c = mk_cache_lit(2);
    let v: u64 = kani::any(); kani::assume(v < 4);
    let r = mk_rec(16, v);
    let mut g = vec![]; let mut n = vec![];
    let inner = Arc::get_mut(&mut c.inner).unwrap();
    let shard = inner.shards[0].get_mut();
    shard.emplace(r.clone(), &mut g, &mut n);
    assert!(shard.usage == weight_of(v));
    std::mem::forget(g); std::mem::forget(n); std::mem::forget(r); std::mem::forget(c); } }
verif_harness! { #[kani::stub(crate::inflight::InflightManager::take, crate::inflight::InflightManager::verif_take_none)] probe_v2_boxshard, 5, {
    let shard: RawCacheShard<Fifo<u64,u64,HProps>, IdHasher, VecIndexer<Fifo<u64,u64,HProps>>> = RawCacheShard {
        eviction: Fifo::new(2, &FifoConfig::default()), indexer: Sentry::default(), usage: 0, entries: 0, capacity: 2,
        inflights: Arc::new(Mutex::new(InflightManager::new())), metrics: Arc::new(Metrics::noop()), _event_listener: None };
    let mut b = Box::new(RwLock::new(shard));
    let v: u64 = kani::any(); kani::assume(v < 4);
    let r = mk_rec(16, v);
    let mut g = vec![]; let mut n = vec![];
    b.write().emplace(r.clone(), &mut g, &mut n);
    assert!(b.read().usage == weight_of(v));
    std::mem::forget(g); std::mem::forget(n); std::mem::forget(r); std::mem::forget(b); } }
