// Harness-side instantiation types for foyer-memory (included by raw.rs / inflight.rs harness modules).
// None of these is a model of foyer: they are type arguments for foyer's own generic parameters
// (S: HashBuilder, I: Indexer, P: Properties, EventListener, Pipe).

/// BuildHasher with hash(k) = k >> 4 for u64 keys: 16,17,18 collide on all 64 bits; 32 does not.
#[derive(Debug, Clone, Copy, Default)]
pub struct IdHasher;
pub struct IdHasherState(u64);
impl std::hash::Hasher for IdHasherState {
    fn finish(&self) -> u64 {
        self.0 >> 4
    }
    fn write(&mut self, _bytes: &[u8]) {
        panic!("IdHasher supports u64 keys only");
    }
    fn write_u64(&mut self, i: u64) {
        self.0 = i;
    }
}
impl std::hash::BuildHasher for IdHasher {
    type Hasher = IdHasherState;
    fn build_hasher(&self) -> IdHasherState {
        IdHasherState(0)
    }
}

/// Properties implementation (the crate's own TestProperties is behind cfg(test)/feature test_utils).
#[derive(Debug, Clone, Copy, Default, PartialEq, Eq)]
pub struct HProps {
    pub phantom: bool,
    pub hint: foyer_common::properties::Hint,
    pub location: Location,
    pub age: foyer_common::properties::Age,
}
impl Properties for HProps {
    fn with_phantom(mut self, phantom: bool) -> Self {
        self.phantom = phantom;
        self
    }
    fn phantom(&self) -> Option<bool> {
        Some(self.phantom)
    }
    fn with_hint(mut self, hint: foyer_common::properties::Hint) -> Self {
        self.hint = hint;
        self
    }
    fn hint(&self) -> Option<foyer_common::properties::Hint> {
        Some(self.hint)
    }
    fn with_location(mut self, location: Location) -> Self {
        self.location = location;
        self
    }
    fn location(&self) -> Option<Location> {
        Some(self.location)
    }
    fn with_age(mut self, age: foyer_common::properties::Age) -> Self {
        self.age = age;
        self
    }
    fn age(&self) -> Option<foyer_common::properties::Age> {
        Some(self.age)
    }
}

/// 4-slot linear-scan implementation of the crate's `Indexer` trait (one legal instantiation of `I`).
pub struct VecIndexer<E: Eviction> {
    slots: [Option<Arc<Record<E>>>; 4],
}
impl<E: Eviction> Default for VecIndexer<E> {
    fn default() -> Self {
        Self {
            slots: [None, None, None, None],
        }
    }
}
impl<E: Eviction> crate::indexer::Indexer for VecIndexer<E> {
    type Eviction = E;

    fn insert(&mut self, record: Arc<Record<E>>) -> Option<Arc<Record<E>>> {
        let mut i = 0;
        while i < 4 {
            if let Some(r) = self.slots[i].as_ref() {
                if r.hash() == record.hash() && r.key() == record.key() {
                    return self.slots[i].replace(record);
                }
            }
            i += 1;
        }
        let mut i = 0;
        while i < 4 {
            if self.slots[i].is_none() {
                self.slots[i] = Some(record);
                return None;
            }
            i += 1;
        }
        panic!("VecIndexer: harness bound of 4 resident records exceeded");
    }

    fn get<Q>(&self, hash: u64, key: &Q) -> Option<&Arc<Record<E>>>
    where
        Q: Hash + Equivalent<E::Key> + ?Sized,
    {
        let mut i = 0;
        while i < 4 {
            if let Some(r) = self.slots[i].as_ref() {
                if r.hash() == hash && key.equivalent(r.key()) {
                    return self.slots[i].as_ref();
                }
            }
            i += 1;
        }
        None
    }

    fn remove<Q>(&mut self, hash: u64, key: &Q) -> Option<Arc<Record<E>>>
    where
        Q: Hash + Equivalent<E::Key> + ?Sized,
    {
        let mut i = 0;
        while i < 4 {
            if let Some(r) = self.slots[i].as_ref() {
                if r.hash() == hash && key.equivalent(r.key()) {
                    return self.slots[i].take();
                }
            }
            i += 1;
        }
        None
    }

    fn drain(&mut self) -> impl Iterator<Item = Arc<Record<E>>> {
        self.slots.iter_mut().filter_map(|s| s.take())
    }
}

/// Recording event listener / pipe: O(1) counters indexed by (key, version bit) - no logs, no loops (a log scanned by
/// loops made the insert harnesses 3x slower and 3x larger).  Key index: 16 -> 0, 17 -> 1, 32 -> 2, 48 -> 3; version bit =
/// bit 3 of the value (set for pre-state entries, clear for entries inserted by the step).
pub const SLOTS: usize = 8;
pub fn slot_of(k: u64, v: u64) -> usize {
    let ki = match k {
        16 => 0,
        17 => 1,
        32 => 2,
        48 => 3,
        _ => panic!("harness: unexpected key in a notification"),
    };
    ki * 2 + ((v >> 3) & 1) as usize
}
pub struct EventLog {
    pub n: std::cell::Cell<usize>,
    pub cnt: [std::cell::Cell<u8>; SLOTS],
    pub reason: [std::cell::Cell<u8>; SLOTS],
}
unsafe impl Send for EventLog {}
unsafe impl Sync for EventLog {}
impl EventLog {
    pub fn new() -> Self {
        Self {
            n: std::cell::Cell::new(0),
            cnt: [std::cell::Cell::new(0), std::cell::Cell::new(0), std::cell::Cell::new(0), std::cell::Cell::new(0), std::cell::Cell::new(0), std::cell::Cell::new(0), std::cell::Cell::new(0), std::cell::Cell::new(0)],
            reason: [std::cell::Cell::new(0), std::cell::Cell::new(0), std::cell::Cell::new(0), std::cell::Cell::new(0), std::cell::Cell::new(0), std::cell::Cell::new(0), std::cell::Cell::new(0), std::cell::Cell::new(0)],
        }
    }
    pub fn code(e: Event) -> u8 {
        match e {
            Event::Evict => 1,
            Event::Replace => 2,
            Event::Remove => 3,
            Event::Clear => 4,
        }
    }
    /// reason code of the (last) notification for this (key, value); 0 if none
    pub fn reason_of(&self, k: u64, v: u64) -> u8 {
        self.reason[slot_of(k, v)].get()
    }
    /// number of notifications for this (key, value)
    pub fn count_kv(&self, k: u64, v: u64) -> usize {
        self.cnt[slot_of(k, v)].get() as usize
    }
}
impl EventListener for EventLog {
    type Key = u64;
    type Value = u64;
    fn on_leave(&self, reason: Event, key: &u64, value: &u64) {
        let s = slot_of(*key, *value);
        self.cnt[s].set(self.cnt[s].get() + 1);
        self.reason[s].set(Self::code(reason));
        self.n.set(self.n.get() + 1);
    }
}

/// Recording pipe: per (key, version bit) count of pieces sent.
pub struct RecPipe {
    pub enabled: bool,
    pub n: std::cell::Cell<usize>,
    pub cnt: [std::cell::Cell<u8>; SLOTS],
}
unsafe impl Send for RecPipe {}
unsafe impl Sync for RecPipe {}
impl std::fmt::Debug for RecPipe {
    fn fmt(&self, _f: &mut std::fmt::Formatter<'_>) -> std::fmt::Result {
        Ok(())
    }
}
impl RecPipe {
    pub fn new(enabled: bool) -> Self {
        Self {
            enabled,
            n: std::cell::Cell::new(0),
            cnt: [std::cell::Cell::new(0), std::cell::Cell::new(0), std::cell::Cell::new(0), std::cell::Cell::new(0), std::cell::Cell::new(0), std::cell::Cell::new(0), std::cell::Cell::new(0), std::cell::Cell::new(0)],
        }
    }
    pub fn count_kv(&self, k: u64, v: u64) -> usize {
        self.cnt[slot_of(k, v)].get() as usize
    }
    fn record(&self, k: u64, v: u64) {
        let s = slot_of(k, v);
        self.cnt[s].set(self.cnt[s].get() + 1);
        self.n.set(self.n.get() + 1);
    }
}
impl crate::pipe::Pipe for RecPipe {
    type Key = u64;
    type Value = u64;
    type Properties = HProps;
    fn is_enabled(&self) -> bool {
        self.enabled
    }
    fn send(&self, piece: Piece<u64, u64, HProps>) {
        self.record(*piece.key(), *piece.value());
        std::mem::forget(piece);
    }
    fn flush(&self, pieces: Vec<Piece<u64, u64, HProps>>) -> Pin<Box<dyn Future<Output = ()> + Send>> {
        for p in pieces.iter() {
            self.record(*p.key(), *p.value());
        }
        std::mem::forget(pieces);
        Box::pin(std::future::ready(()))
    }
}
