// Kani harnesses for foyer-memory/src/eviction/* — C14: victims follow the configured algorithm.
// Differential: the real container is driven by a symbolic operation sequence in lock-step with an executable
// reference of the documented rule written over plain arrays; every `pop` must agree, and at the end both are
// drained and must agree on the complete remaining order.
#![allow(dead_code, unused_imports, unused_variables, clippy::all)]

use std::sync::Arc;

use foyer_common::properties::{Hint, Location, Properties};

use super::{
    fifo::{Fifo, FifoConfig},
    lru::{Lru, LruConfig},
    sieve::{Sieve, SieveConfig},
    *,
};
use crate::record::{Data, Record};

#[allow(dead_code, unused)]
mod stubs {
    include!("/verif/harness/common/stubs.rs");
}
include!("/verif/harness/common/macros.rs");

#[derive(Debug, Clone, Copy, Default, PartialEq, Eq)]
pub struct EProps {
    pub hint: Hint,
}
impl Properties for EProps {
    fn with_phantom(self, _phantom: bool) -> Self {
        self
    }
    fn phantom(&self) -> Option<bool> {
        Some(false)
    }
    fn with_hint(mut self, hint: Hint) -> Self {
        self.hint = hint;
        self
    }
    fn hint(&self) -> Option<Hint> {
        Some(self.hint)
    }
    fn with_location(self, _location: Location) -> Self {
        self
    }
    fn location(&self) -> Option<Location> {
        None
    }
    fn with_age(self, _age: foyer_common::properties::Age) -> Self {
        self
    }
    fn age(&self) -> Option<foyer_common::properties::Age> {
        None
    }
}

pub const N: usize = 3; // records

/// Reference of the documented rule, over plain arrays. `NONE` = empty slot.
const NONE: u8 = 0xff;

#[derive(Clone, Copy)]
pub struct Q {
    a: [u8; N],
    n: usize,
}
impl Q {
    const fn new() -> Self {
        Q { a: [NONE; N], n: 0 }
    }
    fn push_back(&mut self, x: u8) {
        self.a[self.n] = x;
        self.n += 1;
    }
    fn pop_front(&mut self) -> Option<u8> {
        if self.n == 0 {
            return None;
        }
        let x = self.a[0];
        let mut i = 1;
        while i < N {
            self.a[i - 1] = self.a[i];
            i += 1;
        }
        self.a[N - 1] = NONE;
        self.n -= 1;
        Some(x)
    }
    fn pos(&self, x: u8) -> Option<usize> {
        let mut i = 0;
        while i < N {
            if i < self.n && self.a[i] == x {
                return Some(i);
            }
            i += 1;
        }
        None
    }
    fn remove(&mut self, x: u8) -> bool {
        match self.pos(x) {
            None => false,
            Some(p) => {
                let mut i = p + 1;
                while i < N {
                    self.a[i - 1] = self.a[i];
                    i += 1;
                }
                self.a[N - 1] = NONE;
                self.n -= 1;
                true
            }
        }
    }
}

pub trait Reference {
    fn push(&mut self, i: u8, w: usize, low: bool);
    fn pop(&mut self) -> Option<u8>;
    fn remove(&mut self, i: u8);
    fn acquire(&mut self, i: u8);
    fn release(&mut self, i: u8);
}

// ---------------- FIFO: victims leave in insertion order ----------------
pub struct RefFifo {
    q: Q,
}
impl Reference for RefFifo {
    fn push(&mut self, i: u8, _w: usize, _low: bool) {
        self.q.push_back(i)
    }
    fn pop(&mut self) -> Option<u8> {
        self.q.pop_front()
    }
    fn remove(&mut self, i: u8) {
        self.q.remove(i);
    }
    fn acquire(&mut self, _i: u8) {}
    fn release(&mut self, _i: u8) {}
}

// ---------------- LRU with a high-priority pool and pinning ----------------
// Rule (lru.rs docs + property statement): normal-hint entries enter the high-priority pool, low-hint entries the
// low-priority list; the high-priority pool holds at most `high_cap` weight (unpinned entries counted), its oldest
// entries overflow to the *back* of the low list; victims: front of low list, then front of high list; an entry that
// was looked up is pinned until its last handle is released and is never a victim; on release it re-enters at the MRU
// end of the pool it belonged to.
pub struct RefLru {
    low: Q,
    high: Q,
    pinned: [bool; N],
    in_high: [bool; N],
    w: [usize; N],
    hw: usize,
    high_cap: usize,
}
impl RefLru {
    fn overflow(&mut self) {
        while self.hw > self.high_cap {
            let x = self.high.pop_front().unwrap();
            self.in_high[x as usize] = false;
            self.hw -= self.w[x as usize];
            self.low.push_back(x);
        }
    }
}
impl Reference for RefLru {
    fn push(&mut self, i: u8, w: usize, low: bool) {
        self.w[i as usize] = w;
        self.pinned[i as usize] = false;
        if low {
            self.in_high[i as usize] = false;
            self.low.push_back(i);
        } else {
            self.in_high[i as usize] = true;
            self.hw += w;
            self.high.push_back(i);
            self.overflow();
        }
    }
    fn pop(&mut self) -> Option<u8> {
        if let Some(x) = self.low.pop_front() {
            return Some(x);
        }
        let x = self.high.pop_front()?;
        self.hw -= self.w[x as usize];
        self.in_high[x as usize] = false;
        Some(x)
    }
    fn remove(&mut self, i: u8) {
        let ix = i as usize;
        if self.pinned[ix] {
            self.pinned[ix] = false;
            self.in_high[ix] = false;
        } else if self.in_high[ix] {
            self.high.remove(i);
            self.hw -= self.w[ix];
            self.in_high[ix] = false;
        } else {
            self.low.remove(i);
        }
    }
    fn acquire(&mut self, i: u8) {
        let ix = i as usize;
        if self.pinned[ix] {
            return;
        }
        if self.in_high[ix] {
            self.high.remove(i);
            self.hw -= self.w[ix];
        } else {
            self.low.remove(i);
        }
        self.pinned[ix] = true;
    }
    fn release(&mut self, i: u8) {
        let ix = i as usize;
        if !self.pinned[ix] {
            return;
        }
        self.pinned[ix] = false;
        if self.in_high[ix] {
            self.hw += self.w[ix];
            self.high.push_back(i);
            self.overflow();
        } else {
            self.low.push_back(i);
        }
    }
}

// ---------------- SIEVE (NSDI'24), queue mirrored: front = oldest, hand moves front -> back ----------------
// Rule: new objects enter at the back with visited = false; a hit sets visited; eviction starts at the hand (or the
// oldest object if the hand is unset), skips visited objects clearing their bit, wraps around from the newest to the
// oldest, evicts the first unvisited object and leaves the hand on the next-newer object (unset if there is none).
// Explicit removal is not part of the paper; the crate resets the hand when the removed object is the hand.
pub struct RefSieve {
    q: Q,
    visited: [bool; N],
    hand: Option<u8>,
}
impl Reference for RefSieve {
    fn push(&mut self, i: u8, _w: usize, _low: bool) {
        self.visited[i as usize] = false;
        self.q.push_back(i);
    }
    fn pop(&mut self) -> Option<u8> {
        if self.q.n == 0 {
            return None;
        }
        let mut p = match self.hand {
            Some(h) => self.q.pos(h).unwrap(),
            None => 0,
        };
        let mut guard = 0;
        loop {
            let x = self.q.a[p];
            if !self.visited[x as usize] {
                break;
            }
            self.visited[x as usize] = false;
            p = if p + 1 >= self.q.n { 0 } else { p + 1 };
            guard += 1;
            assert!(guard <= 2 * N, "reference sieve does not terminate");
        }
        let x = self.q.a[p];
        self.hand = if p + 1 < self.q.n { Some(self.q.a[p + 1]) } else { None };
        self.q.remove(x);
        Some(x)
    }
    fn remove(&mut self, i: u8) {
        if self.hand == Some(i) {
            self.hand = None;
        }
        self.q.remove(i);
    }
    fn acquire(&mut self, i: u8) {
        self.visited[i as usize] = true;
    }
    fn release(&mut self, _i: u8) {}
}

fn idx_of<E: Eviction>(recs: &[Arc<Record<E>>; N], r: &Arc<Record<E>>) -> u8 {
    let mut i = 0;
    while i < N {
        if Arc::ptr_eq(&recs[i], r) {
            return i as u8;
        }
        i += 1;
    }
    panic!("container returned a record that was never pushed");
}

fn call_acquire<E: Eviction>(e: &mut E, r: &Arc<Record<E>>) {
    match E::acquire() {
        Op::Noop => {}
        Op::Immutable(f) => f(e, r),
        Op::Mutable(mut f) => f(e, r),
    }
}
fn call_release<E: Eviction>(e: &mut E, r: &Arc<Record<E>>) {
    match E::release() {
        Op::Noop => {}
        Op::Immutable(f) => f(e, r),
        Op::Mutable(mut f) => f(e, r),
    }
}

/// Drive `nops` symbolic operations over N records against `reference`.
fn differential<E, R>(mut real: E, mut reference: R, nops: usize)
where
    E: Eviction<Key = u64, Value = u64, Properties = EProps>,
    R: Reference,
{
    // records: symbolic weight 1..=2 and symbolic hint
    let mut w = [0usize; N];
    let mut low = [false; N];
    let recs: [Arc<Record<E>>; N] = std::array::from_fn(|i| {
        let wi: usize = kani::any();
        kani::assume(wi >= 1 && wi <= 2);
        let l: bool = kani::any();
        w[i] = wi;
        low[i] = l;
        Arc::new(Record::new(Data {
            key: i as u64,
            value: 0,
            properties: EProps { hint: if l { Hint::Low } else { Hint::Normal } },
            hash: i as u64,
            weight: wi,
        }))
    });
    let mut in_ev = [false; N]; // harness view of "is in the container" (trait preconditions)
    let mut acquired = [false; N];
    let mut removed = [false; N]; // records that left through `remove` are never pushed again (RawCache creates a fresh record per insert;
                                  // only popped records come back, via insert_piece)
    let mut pops = 0;
    let mut step = 0;
    while step < nops {
        let op: u8 = kani::any();
        kani::assume(op < 5);
        let i: usize = kani::any();
        kani::assume(i < N);
        match op {
            0 => {
                // push: caller guarantees the record is not in the container
                kani::assume(!in_ev[i] && !removed[i]);
                real.push(recs[i].clone());
                reference.push(i as u8, w[i], low[i]);
                in_ev[i] = true;
                acquired[i] = false;
                assert!(recs[i].is_in_eviction(), "push must set IN_EVICTION");
            }
            1 => {
                let a = real.pop();
                let b = reference.pop();
                match (&a, b) {
                    (Some(r), Some(x)) => {
                        let got = idx_of(&recs, r);
                        assert!(got == x, "C14: victim differs from the documented algorithm");
                        assert!(!r.is_in_eviction(), "pop must clear IN_EVICTION");
                        in_ev[got as usize] = false;
                        pops += 1;
                    }
                    (None, None) => {}
                    (Some(_), None) => panic!("C14: container evicted although the rule has no evictable entry (pinned entry evicted?)"),
                    (None, Some(_)) => panic!("C14: container has no victim although the rule has one"),
                }
                std::mem::forget(a);
            }
            2 => {
                kani::assume(in_ev[i]);
                real.remove(&recs[i]);
                reference.remove(i as u8);
                in_ev[i] = false;
                removed[i] = true;
                assert!(!recs[i].is_in_eviction(), "remove must clear IN_EVICTION");
            }
            3 => {
                // acquire: called on lookup; record may or may not be in the container (the impl checks the flag)
                kani::assume(in_ev[i]);
                call_acquire(&mut real, &recs[i]);
                reference.acquire(i as u8);
                acquired[i] = true;
            }
            _ => {
                // release: last handle dropped; only meaningful after an acquire
                kani::assume(in_ev[i] && acquired[i]);
                call_release(&mut real, &recs[i]);
                reference.release(i as u8);
                acquired[i] = false;
            }
        }
        step += 1;
    }
    // drain: complete remaining order must agree
    let mut k = 0;
    while k <= N {
        let a = real.pop();
        let b = reference.pop();
        match (&a, b) {
            (Some(r), Some(x)) => {
                assert!(idx_of(&recs, r) == x, "C14: remaining eviction order differs from the documented algorithm");
                pops += 1;
            }
            (None, None) => {}
            _ => panic!("C14: container and rule disagree on the number of evictable entries"),
        }
        std::mem::forget(a);
        k += 1;
    }
    kani::cover!(pops >= 2, "at least two victims compared");
    kani::cover!(true, "end reached");
    std::mem::forget(recs);
    std::mem::forget(real);
}

macro_rules! c14 {
    ($name:ident, $real:expr, $reference:expr, $nops:expr) => {
        verif_harness! { $name, 6, { differential($real, $reference, $nops); } }
    };
}

c14!(c14_fifo_3, Fifo::<u64, u64, EProps>::new(4, &FifoConfig::default()), RefFifo { q: Q::new() }, 3);
c14!(c14_fifo_4, Fifo::<u64, u64, EProps>::new(4, &FifoConfig::default()), RefFifo { q: Q::new() }, 4);

fn ref_lru(high_cap: usize) -> RefLru {
    RefLru { low: Q::new(), high: Q::new(), pinned: [false; N], in_high: [false; N], w: [0; N], hw: 0, high_cap }
}
// capacity 4, ratio 0.5 -> high-priority pool holds weight 2; capacity 2, ratio 0.5 -> 1
c14!(c14_lru_h2_3, Lru::<u64, u64, EProps>::new(4, &LruConfig { high_priority_pool_ratio: 0.5 }), ref_lru(2), 3);
c14!(c14_lru_h2_4, Lru::<u64, u64, EProps>::new(4, &LruConfig { high_priority_pool_ratio: 0.5 }), ref_lru(2), 4);
c14!(c14_lru_h1_4, Lru::<u64, u64, EProps>::new(2, &LruConfig { high_priority_pool_ratio: 0.5 }), ref_lru(1), 4);
c14!(c14_lru_h0_4, Lru::<u64, u64, EProps>::new(4, &LruConfig { high_priority_pool_ratio: 0.0 }), ref_lru(0), 4);
c14!(c14_lru_h2_5, Lru::<u64, u64, EProps>::new(4, &LruConfig { high_priority_pool_ratio: 0.5 }), ref_lru(2), 5);

fn ref_sieve() -> RefSieve {
    RefSieve { q: Q::new(), visited: [false; N], hand: None }
}
c14!(c14_sieve_3, Sieve::<u64, u64, EProps>::new(4, &SieveConfig {}), ref_sieve(), 3);
c14!(c14_sieve_4, Sieve::<u64, u64, EProps>::new(4, &SieveConfig {}), ref_sieve(), 4);
c14!(c14_sieve_5, Sieve::<u64, u64, EProps>::new(4, &SieveConfig {}), ref_sieve(), 5);

/// Scripted differential: the operation SEQUENCE is literal (so it can be longer than the fully symbolic harnesses reach)
/// and expanded by a macro (no harness loop: the global unwind bound stays at what the containers' own loops need);
/// weights (1..=2) and hints of the three records are symbolic.  Same oracle: every victim and the final drain order
/// equal the reference's.  op codes: 0 push, 1 pop, 2 remove, 3 acquire, 4 release.
pub struct Script<E: Eviction, R> {
    real: E,
    reference: R,
    recs: [Arc<Record<E>>; N],
    w: [usize; N],
    low: [bool; N],
    pops: usize,
}
impl<E, R> Script<E, R>
where
    E: Eviction<Key = u64, Value = u64, Properties = EProps>,
    R: Reference,
{
    fn new(real: E, reference: R) -> Self {
        let mut w = [0usize; N];
        let mut low = [false; N];
        let recs: [Arc<Record<E>>; N] = std::array::from_fn(|i| {
            let wi: usize = kani::any();
            kani::assume(wi >= 1 && wi <= 2);
            let l: bool = kani::any();
            w[i] = wi;
            low[i] = l;
            Arc::new(Record::new(Data { key: i as u64, value: 0, properties: EProps { hint: if l { Hint::Low } else { Hint::Normal } }, hash: i as u64, weight: wi }))
        });
        Script { real, reference, recs, w, low, pops: 0 }
    }
    fn pop(&mut self, draining: bool) {
        let a = self.real.pop();
        let b = self.reference.pop();
        match (&a, b) {
            (Some(r), Some(x)) => {
                assert!(idx_of(&self.recs, r) == x, "C14: victim differs from the documented algorithm");
                self.pops += 1;
            }
            (None, None) => {}
            _ => {
                if draining {
                    panic!("C14: container and rule disagree on the number of evictable entries")
                } else {
                    panic!("C14: container and rule disagree on whether there is a victim")
                }
            }
        }
        std::mem::forget(a);
    }
    fn op(&mut self, op: u8, i: usize) {
        match op {
            0 => {
                self.real.push(self.recs[i].clone());
                self.reference.push(i as u8, self.w[i], self.low[i]);
            }
            1 => self.pop(false),
            2 => {
                self.real.remove(&self.recs[i]);
                self.reference.remove(i as u8);
            }
            3 => {
                call_acquire(&mut self.real, &self.recs[i]);
                self.reference.acquire(i as u8);
            }
            _ => {
                call_release(&mut self.real, &self.recs[i]);
                self.reference.release(i as u8);
            }
        }
    }
    fn finish(mut self) {
        self.pop(true);
        self.pop(true);
        self.pop(true);
        self.pop(true);
        kani::cover!(self.pops >= 2, "at least two victims compared");
        kani::cover!(true, "end reached");
        std::mem::forget(self);
    }
}
macro_rules! c14script {
    ($name:ident, $real:expr, $reference:expr, [$(($op:expr, $i:expr)),* $(,)?]) => {
        verif_harness! { $name, 6, {
            let mut s = Script::new($real, $reference);
            $( s.op($op, $i); )*
            s.finish();
        } }
    };
}
const PUSH: u8 = 0;
const POP: u8 = 1;
const REMOVE: u8 = 2;
const ACQ: u8 = 3;
const REL: u8 = 4;
// held entry released into a pool that filled up meanwhile; a later insert; then victims
c14script!(c14_lru_script_release_full_pool, Lru::<u64, u64, EProps>::new(4, &LruConfig { high_priority_pool_ratio: 0.5 }), ref_lru(2),
    [(PUSH, 0), (ACQ, 0), (PUSH, 1), (REL, 0), (PUSH, 2), (POP, 0)]);
c14script!(c14_lru_script_hold_two, Lru::<u64, u64, EProps>::new(4, &LruConfig { high_priority_pool_ratio: 0.5 }), ref_lru(2),
    [(PUSH, 0), (PUSH, 1), (ACQ, 1), (PUSH, 2), (ACQ, 0), (REL, 1), (POP, 0), (REL, 0)]);
c14script!(c14_lru_script_remove_pinned, Lru::<u64, u64, EProps>::new(4, &LruConfig { high_priority_pool_ratio: 0.5 }), ref_lru(2),
    [(PUSH, 0), (ACQ, 0), (ACQ, 0), (PUSH, 1), (REMOVE, 0), (PUSH, 2), (POP, 0)]);
c14script!(c14_lru_script_pop_while_pinned, Lru::<u64, u64, EProps>::new(2, &LruConfig { high_priority_pool_ratio: 0.5 }), ref_lru(1),
    [(PUSH, 0), (PUSH, 1), (PUSH, 2), (ACQ, 0), (POP, 0), (REL, 0), (POP, 0)]);
c14script!(c14_sieve_script_hand_wraps, Sieve::<u64, u64, EProps>::new(4, &SieveConfig {}), ref_sieve(),
    [(PUSH, 0), (PUSH, 1), (PUSH, 2), (ACQ, 0), (ACQ, 1), (POP, 0), (PUSH, 2), (ACQ, 2), (POP, 0)]);
c14script!(c14_sieve_script_remove_hand, Sieve::<u64, u64, EProps>::new(4, &SieveConfig {}), ref_sieve(),
    [(PUSH, 0), (PUSH, 1), (PUSH, 2), (ACQ, 0), (POP, 0), (REMOVE, 2), (POP, 0)]);

// ---------------- S3-FIFO (SOSP'23) as documented in s3fifo.rs ----------------
// Rule: new entries enter `small` unless their hash is remembered by the ghost queue, then `main`. A hit increments the
// frequency (cap 3). Eviction: while `small` holds more than its share, pop its head: frequency >= threshold -> move to
// `main` (keeps its frequency), else -> remember the hash in the ghost queue and evict. Otherwise scan `main` from the
// head: frequency > 0 -> decrement and move to the tail, else evict. If `main` is empty, evict the head of `small`.
// The ghost queue remembers hashes in FIFO order up to `ghost_cap` total weight: before remembering an entry of weight w
// it forgets oldest entries while remembered weight + w > ghost_cap.
pub struct RefS3 {
    small: Q,
    main: Q,
    freq: [u8; N],
    w: [usize; N],
    in_main: [bool; N],
    small_w: usize,
    small_cap: usize,
    threshold: u8,
    ghost: [(u8, usize); 4], // (record id, weight), FIFO; ghost_n entries
    ghost_n: usize,
    ghost_w: usize,
    ghost_cap: usize,
}
impl RefS3 {
    fn ghost_contains(&self, i: u8) -> bool {
        let mut k = 0;
        while k < 4 {
            if k < self.ghost_n && self.ghost[k].0 == i {
                return true;
            }
            k += 1;
        }
        false
    }
    fn ghost_pop(&mut self) {
        if self.ghost_n == 0 {
            return;
        }
        self.ghost_w -= self.ghost[0].1;
        let mut k = 1;
        while k < 4 {
            self.ghost[k - 1] = self.ghost[k];
            k += 1;
        }
        self.ghost_n -= 1;
    }
    fn ghost_push(&mut self, i: u8, w: usize) {
        if self.ghost_cap == 0 {
            return;
        }
        while self.ghost_w + w > self.ghost_cap && self.ghost_w > 0 {
            self.ghost_pop();
        }
        assert!(self.ghost_n < 4, "reference ghost bound");
        self.ghost[self.ghost_n] = (i, w);
        self.ghost_n += 1;
        self.ghost_w += w;
    }
}
impl Reference for RefS3 {
    fn push(&mut self, i: u8, w: usize, _low: bool) {
        let ix = i as usize;
        self.w[ix] = w;
        self.freq[ix] = 0;
        if self.ghost_contains(i) {
            self.in_main[ix] = true;
            self.main.push_back(i);
        } else {
            self.in_main[ix] = false;
            self.small_w += w;
            self.small.push_back(i);
        }
    }
    fn pop(&mut self) -> Option<u8> {
        if self.small_w > self.small_cap {
            let mut guard = 0;
            while let Some(x) = self.small.pop_front() {
                let ix = x as usize;
                self.small_w -= self.w[ix];
                if self.freq[ix] >= self.threshold {
                    self.in_main[ix] = true;
                    self.main.push_back(x);
                } else {
                    self.freq[ix] = 0;
                    self.ghost_push(x, self.w[ix]);
                    return Some(x);
                }
                guard += 1;
                assert!(guard <= N);
            }
        }
        let mut guard = 0;
        while let Some(x) = self.main.pop_front() {
            let ix = x as usize;
            if self.freq[ix] > 0 {
                self.freq[ix] -= 1;
                self.main.push_back(x);
            } else {
                self.in_main[ix] = false;
                return Some(x);
            }
            guard += 1;
            assert!(guard <= 4 * N, "reference s3fifo does not terminate");
        }
        let x = self.small.pop_front()?;
        self.small_w -= self.w[x as usize];
        self.freq[x as usize] = 0;
        Some(x)
    }
    fn remove(&mut self, i: u8) {
        let ix = i as usize;
        if self.in_main[ix] {
            self.main.remove(i);
            self.in_main[ix] = false;
        } else {
            self.small.remove(i);
            self.small_w -= self.w[ix];
        }
        self.freq[ix] = 0;
    }
    fn acquire(&mut self, i: u8) {
        let ix = i as usize;
        if self.freq[ix] < 3 {
            self.freq[ix] += 1;
        }
    }
    fn release(&mut self, _i: u8) {}
}

mod s3stubs {
    use std::{
        borrow::Borrow,
        collections::HashSet,
        hash::{BuildHasher, Hash},
    };
    pub fn hs_insert<T: Eq + Hash, S: BuildHasher, A: std::alloc::Allocator>(_this: &mut HashSet<T, S, A>, value: T) -> bool {
        std::mem::forget(value);
        true
    }
    pub fn hs_remove<T: Eq + Hash + Borrow<Q>, S: BuildHasher, A: std::alloc::Allocator, Q: ?Sized + Hash + Eq>(_this: &mut HashSet<T, S, A>, _value: &Q) -> bool {
        true
    }
    pub fn random_state_fixed() -> std::hash::RandomState {
        // the hasher is never used (HashSet insert / remove are no-ops, contains is answered from the queue)
        unsafe { std::mem::transmute::<(u64, u64), std::hash::RandomState>((1, 2)) }
    }
}

use super::s3fifo::{S3Fifo, S3FifoConfig};

fn ref_s3(small_cap: usize, ghost_cap: usize, threshold: u8) -> RefS3 {
    RefS3 { small: Q::new(), main: Q::new(), freq: [0; N], w: [0; N], in_main: [false; N], small_w: 0, small_cap, threshold,
            ghost: [(NONE, 0); 4], ghost_n: 0, ghost_w: 0, ghost_cap }
}

macro_rules! c14s3 {
    ($name:ident, $cap:expr, $cfg:expr, $reference:expr, $nops:expr) => {
        verif_harness! {
            #[kani::stub(std::collections::HashSet::insert, s3stubs::hs_insert)]
            #[kani::stub(crate::eviction::s3fifo::GhostQueue::pop, crate::eviction::s3fifo::GhostQueue::verif_pop)]
            #[kani::stub(std::hash::RandomState::new, s3stubs::random_state_fixed)]
            #[kani::stub(crate::eviction::s3fifo::GhostQueue::contains, crate::eviction::s3fifo::GhostQueue::verif_contains)]
            $name, 6, {
                let real = S3Fifo::<u64, u64, EProps>::new($cap, &$cfg);
                differential(real, $reference, $nops);
            }
        }
    };
}
// capacity 4: small share 0.25 -> 1, ghost share 0.5 -> 2 (so a third ghosted weight makes the queue forget), threshold 1
const S3_A: S3FifoConfig = S3FifoConfig { small_queue_capacity_ratio: 0.25, ghost_queue_capacity_ratio: 0.5, small_to_main_freq_threshold: 1 };
c14s3!(c14_s3fifo_g2_4, 4, S3_A, ref_s3(1, 2, 1), 4);
c14s3!(c14_s3fifo_g2_5, 4, S3_A, ref_s3(1, 2, 1), 5);
c14s3!(c14_s3fifo_g2_6, 4, S3_A, ref_s3(1, 2, 1), 6);
// threshold 2, ghost share 1.0 -> 4
const S3_B: S3FifoConfig = S3FifoConfig { small_queue_capacity_ratio: 0.5, ghost_queue_capacity_ratio: 1.0, small_to_main_freq_threshold: 2 };
c14s3!(c14_s3fifo_t2_5, 4, S3_B, ref_s3(2, 4, 2), 5);

/// The ghost queue alone, driven directly: symbolic pushes; remembered weight never exceeds the capacity (when every
/// single weight fits), membership is exactly the most recent window.
verif_harness! {
    #[kani::stub(std::collections::HashSet::insert, s3stubs::hs_insert)]
    #[kani::stub(crate::eviction::s3fifo::GhostQueue::pop, crate::eviction::s3fifo::GhostQueue::verif_pop)]
    #[kani::stub(std::hash::RandomState::new, s3stubs::random_state_fixed)]
    #[kani::stub(crate::eviction::s3fifo::GhostQueue::contains, crate::eviction::s3fifo::GhostQueue::verif_contains)]
    c14_s3fifo_ghost_window, 6, {
        // reach the ghost queue through the container: small share 0 -> every pop evicts the head of `small` into the ghost
        let cfg = S3FifoConfig { small_queue_capacity_ratio: 0.01, ghost_queue_capacity_ratio: 0.5, small_to_main_freq_threshold: 1 };
        let mut real = S3Fifo::<u64, u64, EProps>::new(4, &cfg); // ghost capacity 2
        let mut w = [0usize; N];
        let recs: [Arc<Record<S3Fifo<u64, u64, EProps>>>; N] = std::array::from_fn(|i| {
            let wi: usize = kani::any();
            kani::assume(wi >= 1 && wi <= 2);
            w[i] = wi;
            Arc::new(Record::new(Data { key: i as u64, value: 0, properties: EProps { hint: Hint::Normal }, hash: i as u64, weight: wi }))
        });
        let mut i = 0;
        while i < N {
            real.push(recs[i].clone());
            i += 1;
        }
        let mut i = 0;
        while i < N {
            let p = real.pop().expect("victim");
            assert!(idx_of(&recs, &p) == i as u8, "small queue is FIFO");
            std::mem::forget(p);
            assert!(real.verif_ghost_weight() <= real.verif_ghost_capacity(), "C14: S3-FIFO ghost queue remembers more than its configured share");
            i += 1;
        }
        // window: the last ghosted entry is remembered; older ones only while the total fits
        assert!(real.verif_ghost_contains(2));
        assert!(real.verif_ghost_contains(1) == (w[1] + w[2] <= 2), "C14: ghost membership is not the most recent window");
        assert!(real.verif_ghost_contains(0) == (w[0] + w[1] + w[2] <= 2));
        kani::cover!(!real.verif_ghost_contains(1), "ghost forgot an entry");
        kani::cover!(true, "end reached");
        std::mem::forget(recs);
        std::mem::forget(real);
    }
}

// native replay of counterexamples: bin/check writes the unit test Kani generated (`--concrete-playback=print`) into the
// included file and runs `cargo kani playback`; the file is empty otherwise.
#[allow(unused_imports, dead_code)]
mod playback {
    use super::*;
    include!("/verif/harness/playback/foyer-memory/eviction__verif_kani.rs");
}
