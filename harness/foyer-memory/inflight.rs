// Kani harnesses for foyer-memory/src/inflight.rs — C11-X1 (close-flag identity), C17 (colliding keys in the
// in-flight table), building blocks of C06.  hashbrown is compiled in its portable group implementation (--cfg miri).
#![allow(dead_code, unused_imports, unused_variables)]
use super::*;
use crate::{
    eviction::fifo::Fifo,
    raw::verif_kani::{HProps, IdHasher, VecIndexer},
};

#[allow(dead_code, unused)]
mod stubs {
    include!("/verif/harness/common/stubs.rs");
}
include!("/verif/harness/common/macros.rs");

type E = Fifo<u64, u64, HProps>;
type M = InflightManager<E, IdHasher, VecIndexer<E>>;

/// C11-X1: the close flag handed to the fetch leader is the flag `take` / `fetch_or_take` set when the in-flight entry
/// is taken over.  (If they are different objects an `insert` during a fetch cannot stop the fetch task.)
verif_harness! { c11_x1_close_flag_take, 10, {
    let mut m: M = InflightManager::new();
    let by_id: bool = kani::any();
    match m.enqueue::<u64, ()>(1, &16u64, None) {
        Enqueue::Lead { id, close, waiter, required_fetch_builder } => {
            assert!(!close.load(Ordering::Relaxed));
            let n = m.take(1, &16u64, if by_id { Some(id) } else { None });
            assert!(n.is_some(), "take did not find the in-flight entry");
            assert!(n.as_ref().unwrap().len() == 1);
            assert!(close.load(Ordering::Relaxed), "C11-X1: the leader's close flag is not set when the in-flight entry is taken over");
            kani::cover!(true, "end reached");
            std::mem::forget(n);
            std::mem::forget(waiter);
            std::mem::forget(close);
            std::mem::forget(required_fetch_builder);
        }
        Enqueue::Wait(_) => panic!("first enqueue must lead"),
    }
    std::mem::forget(m);
} }

verif_harness! { c11_x1_close_flag_fetch_or_take, 10, {
    let mut m: M = InflightManager::new();
    match m.enqueue::<u64, ()>(1, &16u64, None) {
        Enqueue::Lead { id, close, waiter, required_fetch_builder } => {
            let r = m.fetch_or_take::<u64, ()>(1, &16u64, id);
            match r {
                Some(FetchOrTake::Notifiers(n)) => {
                    assert!(n.len() == 1);
                    assert!(close.load(Ordering::Relaxed), "C11-X1: close flag not set when the leader gives up the in-flight entry");
                    std::mem::forget(n);
                }
                _ => panic!("leader without deferred fetch must receive the notifiers"),
            }
            kani::cover!(true, "end reached");
            std::mem::forget(waiter);
            std::mem::forget(close);
            std::mem::forget(required_fetch_builder);
        }
        Enqueue::Wait(_) => panic!("first enqueue must lead"),
    }
    std::mem::forget(m);
} }

/// C17 (in-flight table): keys 16 and 17 collide on all 64 hash bits. Each leads its own fetch; taking one leaves the other.
verif_harness! { c17_inflight_collision, 10, {
    let mut m: M = InflightManager::new();
    let a = m.enqueue::<u64, ()>(1, &16u64, None);
    let b = m.enqueue::<u64, ()>(1, &17u64, None);
    let (ida, idb) = match (&a, &b) {
        (Enqueue::Lead { id: ia, .. }, Enqueue::Lead { id: ib, .. }) => (*ia, *ib),
        _ => panic!("C17: a colliding key joined another key's in-flight fetch"),
    };
    assert!(ida != idb);
    let c = m.enqueue::<u64, ()>(1, &16u64, None);
    assert!(matches!(c, Enqueue::Wait(_)), "second caller of the same key must wait");
    let first: bool = kani::any();
    let (k1, k2) = if first { (16u64, 17u64) } else { (17u64, 16u64) };
    let n1 = m.take(1, &k1, None).unwrap();
    assert!(n1.len() == if first { 2 } else { 1 }, "C17: take returned another key's waiters");
    let n2 = m.take(1, &k2, None).unwrap();
    assert!(n2.len() == if first { 1 } else { 2 }, "C17: take returned another key's waiters");
    assert!(m.take(1, &16u64, None).is_none() && m.take(1, &17u64, None).is_none());
    kani::cover!(true, "end reached");
    std::mem::forget((a, b, c, n1, n2));
    std::mem::forget(m);
} }

// native replay of counterexamples: bin/check writes the unit test Kani generated (`--concrete-playback=print`) into the
// included file and runs `cargo kani playback`; the file is empty otherwise.
#[allow(unused_imports, dead_code)]
mod playback {
    use super::*;
    include!("/verif/harness/playback/foyer-memory/inflight__verif_kani.rs");
}

verif_harness! { exp_piece_drop, 6, {
    let r: Arc<crate::record::Record<E>> = Arc::new(crate::record::Record::new(crate::record::Data { key: 1, value: kani::any(), properties: HProps::default(), hash: 1, weight: 1 }));
    let p = crate::pipe::Piece::new(r.clone());
    let q = p.clone();
    drop(p);
    assert!(*q.value() == *r.value());
    drop(q);
    assert!(Arc::strong_count(&r) == 1);
    kani::cover!(true, "end reached");
    std::mem::forget(r);
} }
