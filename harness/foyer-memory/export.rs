// cfg(kani)-only public helpers of foyer-memory for harnesses that live in *other* crates (foyer-storage, foyer).
// `Record` / `Data` are private to foyer-memory; a `Piece` can otherwise only be obtained from a full `Cache`.
// Nothing here is a model: `verif_piece` builds a real `Arc<Record<Fifo<..>>>` and wraps it with the real `Piece::new`.
#![allow(dead_code, missing_docs)]

use std::sync::Arc;

use foyer_common::properties::Properties;

use crate::{
    eviction::fifo::Fifo,
    pipe::Piece,
    record::{Data, Record},
};

/// Build a real `Piece` (strong count 1) over a fresh record.
pub fn verif_piece<K, V, P>(key: K, value: V, properties: P, hash: u64, weight: usize) -> Piece<K, V, P>
where
    K: foyer_common::code::Key,
    V: foyer_common::code::Value,
    P: Properties,
{
    let record: Arc<Record<Fifo<K, V, P>>> = Arc::new(Record::new(Data {
        key,
        value,
        properties,
        hash,
        weight,
    }));
    Piece::new(record)
}
