// cfg(kani) child of foyer-common/src/error.rs: stub targets that must be inherent methods of `Error`.
// Trusted base: these keep the error *kind* (which the properties observe) and drop message text,
// context strings, source chains and backtraces (which no property observes).
#![allow(dead_code)]
use super::*;

impl Error {
    /// Stub for `Error::new`: same kind, no message allocation, no backtrace capture.
    pub fn verif_new(kind: ErrorKind, _message: impl Into<String>) -> Self {
        Self {
            kind,
            message: String::new(),
            context: Vec::new(),
            source: None,
            backtrace: None,
        }
    }

    /// Stub for `Error::with_context` (formats its value with `ToString`).
    pub fn verif_with_context(self, _key: &'static str, _value: impl ToString) -> Self {
        self
    }

    /// Stub for `Error::with_source`: the source error is leaked instead of boxed into anyhow (io::Error /
    /// anyhow drop glue is very expensive for CBMC and is not the subject of any property).
    pub fn verif_with_source(self, source: impl Into<anyhow::Error>) -> Self {
        std::mem::forget(source);
        self
    }
}
