// Kani harnesses for foyer-common/src/code.rs — C08 obligations R1 (round trip) and R2 (size limit, no truncation).
#![allow(dead_code, unused_imports)]
use super::*;
use crate::error::ErrorKind;

#[allow(dead_code, unused)]
mod stubs {
    include!("/verif/harness/common/stubs_min.rs");
}
include!("/verif/harness/common/macros_common.rs");

/// R1 + R2 for one fixed-width numeric type. `$bits` turns the value into something comparable bit for bit.
macro_rules! numeric_harness {
    ($rt:ident, $lim:ident, $t:ty, $bits:expr) => {
        verif_harness! { $rt, 4, {
            let x: $t = kani::any();
            const N: usize = std::mem::size_of::<$t>();
            let mut buf = [0u8; 20];
            let remaining = {
                let mut w = &mut buf[..];
                x.encode(&mut w).unwrap();
                w.len()
            };
            let written = 20 - remaining;
            assert!(written == N, "C08-R1: bytes written != size of type");
            assert!(x.estimated_size() == written, "C08-R1: estimated_size != bytes written");
            // trailing garbage after the encoding must not influence decoding
            let tail: u8 = kani::any();
            buf[N] = tail;
            let mut r = &buf[..];
            let y = <$t as Code>::decode(&mut r).unwrap();
            assert!(r.len() == 20 - N, "C08-R1: decode consumed a different number of bytes");
            let f = $bits;
            assert!(f(x) == f(y), "C08-R1: decode(encode(x)) != x");
            kani::cover!(true, "end reached");
        } }
        verif_harness! { $lim, 4, {
            let x: $t = kani::any();
            const N: usize = std::mem::size_of::<$t>();
            let n: usize = kani::any();
            kani::assume(n < N);
            let mut buf = [0u8; 20];
            let res = {
                let mut w = &mut buf[..n];
                x.encode(&mut w)
            };
            match res {
                Ok(()) => panic!("C08-R2: encode into a too-small buffer reported success"),
                Err(e) => { assert!(e.kind() == ErrorKind::BufferSizeLimit, "C08-R2: wrong error kind for short buffer"); std::mem::forget(e); }
            }
            // short input: decode must fail, never fabricate a value
            let mut r = &buf[..n];
            let d = <$t as Code>::decode(&mut r);
            assert!(d.is_err(), "C08-R2: decode from truncated input succeeded");
            std::mem::forget(d);
            kani::cover!(n > 0 || std::mem::size_of::<$t>() == 1, "partial buffer");
            kani::cover!(true, "end reached");
        } }
    };
}

numeric_harness!(c08_r1_u8, c08_r2_u8, u8, |v: u8| v);
numeric_harness!(c08_r1_u16, c08_r2_u16, u16, |v: u16| v);
numeric_harness!(c08_r1_u32, c08_r2_u32, u32, |v: u32| v);
numeric_harness!(c08_r1_u64, c08_r2_u64, u64, |v: u64| v);
numeric_harness!(c08_r1_u128, c08_r2_u128, u128, |v: u128| v);
numeric_harness!(c08_r1_usize, c08_r2_usize, usize, |v: usize| v);
numeric_harness!(c08_r1_i8, c08_r2_i8, i8, |v: i8| v);
numeric_harness!(c08_r1_i16, c08_r2_i16, i16, |v: i16| v);
numeric_harness!(c08_r1_i32, c08_r2_i32, i32, |v: i32| v);
numeric_harness!(c08_r1_i64, c08_r2_i64, i64, |v: i64| v);
numeric_harness!(c08_r1_i128, c08_r2_i128, i128, |v: i128| v);
numeric_harness!(c08_r1_isize, c08_r2_isize, isize, |v: isize| v);
numeric_harness!(c08_r1_f32, c08_r2_f32, f32, |v: f32| v.to_bits());
numeric_harness!(c08_r1_f64, c08_r2_f64, f64, |v: f64| v.to_bits());

verif_harness! { c08_r1_bool, 4, {
    let x: bool = kani::any();
    let mut buf = [0u8; 4];
    let rem = { let mut w = &mut buf[..]; x.encode(&mut w).unwrap(); w.len() };
    assert!(4 - rem == 1 && x.estimated_size() == 1);
    let mut r = &buf[..];
    assert!(bool::decode(&mut r).unwrap() == x);
    assert!(r.len() == 3);
    // arbitrary byte: only 0 and 1 are accepted
    let b: u8 = kani::any();
    let one = [b];
    let mut r = &one[..];
    match bool::decode(&mut r) {
        Ok(v) => { assert!((b == 0 && !v) || (b == 1 && v), "C08/C03: bool decoded from a byte other than 0/1"); }
        Err(e) => { assert!(b > 1); std::mem::forget(e); }
    }
    let mut empty: &mut [u8] = &mut [];
    let e = x.encode(&mut empty).unwrap_err();
    assert!(e.kind() == ErrorKind::BufferSizeLimit);
    std::mem::forget(e);
    kani::cover!(true, "end reached");
} }

/// Length-prefixed types: one harness per concrete payload length, contents symbolic.
macro_rules! lp_harness {
    ($name:ident, $len:expr, $mk:expr, $bytes:expr, $t:ty) => {
        lp_harness!($name, $len, $mk, $bytes, $t, true);
    };
    ($name:ident, $len:expr, $mk:expr, $bytes:expr, $t:ty, $trunc:expr) => {
        verif_harness! { $name, 10, {
            const L: usize = $len;
            let content: [u8; L] = kani::any();
            let x: $t = match $mk(&content) { Some(x) => x, None => { kani::assume(false); unreachable!() } };
            let mut buf = [0u8; 32];
            let rem = { let mut w = &mut buf[..]; x.encode(&mut w).unwrap(); w.len() };
            let written = 32 - rem;
            assert!(written == 8 + L, "C08-R1: length-prefixed encoding has wrong size");
            assert!(x.estimated_size() == written, "C08-R1: estimated_size != bytes written");
            // wire format: 8-byte little-endian BYTE length, then the payload bytes
            let mut lb = [0u8; 8];
            lb.copy_from_slice(&buf[..8]);
            assert!(u64::from_le_bytes(lb) as usize == L, "C08-R1: length prefix is not the number of payload bytes written");
            let mut i = 0;
            while i < L { assert!(buf[8 + i] == content[i], "C08-R1: payload byte changed by encode"); i += 1; }
            if $trunc {
                // decode (String is excluded: UTF-8 validation of symbolic bytes runs CBMC out of memory - its decode is
                // exercised on concrete strings in c08_r1_string_multibyte_concrete and shares the prefix logic with Vec<u8>)
                let mut r = &buf[..];
                let y = <$t as Code>::decode(&mut r).unwrap();
                assert!(r.len() == 32 - written, "C08-R1: decode consumed a different number of bytes");
                let yb: &[u8] = $bytes(&y);
                assert!(yb.len() == L);
                let mut i = 0;
                while i < L { assert!(yb[i] == content[i], "C08-R1: payload byte changed in round trip"); i += 1; }
                std::mem::forget(y);
            }
            // R2: every too-small destination is a size-limit error
            let n: usize = kani::any();
            kani::assume(n < written);
            let mut small = [0u8; 32];
            let res = { let mut w = &mut small[..n]; x.encode(&mut w) };
            match res {
                Ok(()) => panic!("C08-R2: encode into a too-small buffer reported success"),
                Err(e) => { assert!(e.kind() == ErrorKind::BufferSizeLimit, "C08-R2: wrong error kind for short buffer"); std::mem::forget(e); }
            }
            // truncated input never decodes (not for String: decoding a symbolic-length prefix followed by UTF-8 validation
            // runs CBMC out of memory; the length-prefix logic is the same code path as Vec<u8>'s, which is checked)
            if $trunc {
                let mut r = &buf[..n];
                let d = <$t as Code>::decode(&mut r);
                assert!(d.is_err(), "C08-R2: decode from truncated input succeeded");
                std::mem::forget(d);
            }
            kani::cover!(n >= 8 || L == 0, "short buffer cuts the payload, not the prefix");
            kani::cover!(true, "end reached");
            std::mem::forget(x);
        } }
    };
}

fn mk_vec(c: &[u8]) -> Option<Vec<u8>> { Some(c.to_vec()) }
fn vec_bytes(v: &Vec<u8>) -> &[u8] { v.as_slice() }
fn mk_bytes(c: &[u8]) -> Option<bytes::Bytes> { Some(bytes::Bytes::copy_from_slice(c)) }
fn bytes_bytes(v: &bytes::Bytes) -> &[u8] { v.as_ref() }
fn mk_string(c: &[u8]) -> Option<String> {
    // symbolic ASCII only (multi-byte UTF-8 validation on symbolic bytes is out of CBMC's reach: 22 GB / 300 s at 3 bytes)
    let mut i = 0;
    while i < c.len() {
        if c[i] >= 0x80 {
            return None;
        }
        i += 1;
    }
    Some(unsafe { String::from_utf8_unchecked(c.to_vec()) })
}
fn string_bytes(v: &String) -> &[u8] { v.as_bytes() }

lp_harness!(c08_r1_vec_0, 0, mk_vec, vec_bytes, Vec<u8>);
lp_harness!(c08_r1_vec_1, 1, mk_vec, vec_bytes, Vec<u8>);
lp_harness!(c08_r1_vec_2, 2, mk_vec, vec_bytes, Vec<u8>);
lp_harness!(c08_r1_vec_3, 3, mk_vec, vec_bytes, Vec<u8>);
lp_harness!(c08_r1_vec_4, 4, mk_vec, vec_bytes, Vec<u8>);
lp_harness!(c08_r1_vec_8, 8, mk_vec, vec_bytes, Vec<u8>);
lp_harness!(c08_r1_bytes_0, 0, mk_bytes, bytes_bytes, bytes::Bytes);
lp_harness!(c08_r1_bytes_1, 1, mk_bytes, bytes_bytes, bytes::Bytes);
lp_harness!(c08_r1_bytes_4, 4, mk_bytes, bytes_bytes, bytes::Bytes);
lp_harness!(c08_r1_bytes_8, 8, mk_bytes, bytes_bytes, bytes::Bytes);
lp_harness!(c08_r1_string_0, 0, mk_string, string_bytes, String, false);
lp_harness!(c08_r1_string_1, 1, mk_string, string_bytes, String, false);
lp_harness!(c08_r1_string_2, 2, mk_string, string_bytes, String, false);
lp_harness!(c08_r1_string_3, 3, mk_string, string_bytes, String, false);

/// Multi-byte UTF-8 (the ASCII harnesses above cannot see a length prefix that counts characters instead of bytes).
/// Encode side, symbolic: every string made of ONE two-byte scalar (U+0080..U+07FF) optionally preceded by one ASCII
/// byte: the prefix is the BYTE length, the payload is the bytes, estimated_size matches.  Decode side: concrete
/// multi-byte strings (validation of symbolic multi-byte input is out of CBMC's reach) round-trip.
verif_harness! { c08_r1_string_multibyte, 12, {
    let lead: u8 = kani::any();
    let cont: u8 = kani::any();
    kani::assume(lead >= 0xC2 && lead <= 0xDF && cont >= 0x80 && cont <= 0xBF);
    let with_ascii: bool = kani::any();
    let a: u8 = kani::any();
    kani::assume(a < 0x80);
    let mut v: Vec<u8> = Vec::with_capacity(3);
    if with_ascii { v.push(a); }
    v.push(lead);
    v.push(cont);
    let l = v.len();
    let x = unsafe { String::from_utf8_unchecked(v) };
    let mut buf = [0u8; 16];
    let rem = { let mut w = &mut buf[..]; x.encode(&mut w).unwrap(); w.len() };
    assert!(16 - rem == 8 + l, "C08-R1: String encoding has wrong size for multi-byte content");
    assert!(x.estimated_size() == 8 + l, "C08-R1: estimated_size != bytes written (multi-byte)");
    let mut lb = [0u8; 8];
    lb.copy_from_slice(&buf[..8]);
    assert!(u64::from_le_bytes(lb) as usize == l, "C08-R1: String length prefix is not the number of payload bytes written");
    let xb = x.as_bytes();
    let mut i = 0;
    while i < 3 { if i < l { assert!(buf[8 + i] == xb[i]); } i += 1; }
    kani::cover!(with_ascii, "ascii + two-byte char");
    kani::cover!(true, "end reached");
    std::mem::forget(x);
} }
verif_harness! { c08_r1_string_multibyte_concrete, 40, {
    // concrete multi-byte strings through encode AND decode (UTF-8 validation runs on concrete bytes)
    let samples: [&str; 3] = ["\u{e9}", "a\u{65e5}", "\u{1f600}b"]; // (ASCII decode: see below)
    let mut k = 0;
    while k < 3 {
        let x = samples[k].to_string();
        let mut buf = [0u8; 24];
        let rem = { let mut w = &mut buf[..]; x.encode(&mut w).unwrap(); w.len() };
        assert!(24 - rem == 8 + x.len());
        let mut r = &buf[..24 - rem];
        let y = String::decode(&mut r).expect("C08-R1: multi-byte String does not decode");
        assert!(r.is_empty());
        assert!(y.as_bytes() == x.as_bytes(), "C08-R1: multi-byte String changed in round trip");
        std::mem::forget((x, y));
        k += 1;
    }
    kani::cover!(true, "end reached");
} }

// native replay of counterexamples: bin/check writes the unit test Kani generated (`--concrete-playback=print`) into the
// included file and runs `cargo kani playback`; the file is empty otherwise.
#[allow(unused_imports, dead_code)]
mod playback {
    use super::*;
    include!("/verif/harness/playback/foyer-common/code__verif_kani.rs");
}
