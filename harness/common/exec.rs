include!("/verif/harness/common/exec_min.rs");

/// In-memory device: `NP` pages of 4 KiB, each its own array (so that CBMC keeps them field-sensitive and zero pages
/// constant-fold), split into partitions by the harness.
pub const HPAGE: usize = 4096;
pub struct MemDev<const NP: usize> {
    pub pages: [std::cell::UnsafeCell<[u8; HPAGE]>; NP],
    pub writes: std::cell::Cell<usize>,
}
unsafe impl<const NP: usize> Send for MemDev<NP> {}
unsafe impl<const NP: usize> Sync for MemDev<NP> {}
impl<const NP: usize> std::fmt::Debug for MemDev<NP> {
    fn fmt(&self, _f: &mut std::fmt::Formatter<'_>) -> std::fmt::Result {
        Ok(())
    }
}
impl<const NP: usize> MemDev<NP> {
    pub fn zeroed() -> Self {
        Self { pages: std::array::from_fn(|_| std::cell::UnsafeCell::new([0u8; HPAGE])), writes: std::cell::Cell::new(0) }
    }
    #[allow(clippy::mut_from_ref)]
    pub fn page(&self, i: usize) -> &mut [u8; HPAGE] {
        unsafe { &mut *self.pages[i].get() }
    }
}

#[derive(Debug)]
pub struct MemPartition {
    pub id: u32,
    /// first device page of the partition
    pub base_page: usize,
    pub size: usize,
}
impl crate::io::device::Partition for MemPartition {
    fn id(&self) -> crate::io::device::PartitionId {
        self.id
    }
    fn size(&self) -> usize {
        self.size
    }
    fn translate(&self, _address: u64) -> (crate::io::device::RawFile, u64) {
        panic!("harness partition has no raw file");
    }
    fn statistics(&self) -> &std::sync::Arc<crate::io::device::statistics::Statistics> {
        panic!("harness partition has no statistics (fastant clock is a foreign call)");
    }
}

/// IoEngine over a MemDev. Partition base pages are looked up by partition id (ids 0..4). Reads and writes are
/// page-aligned and whole pages (what the tombstone log and the scanner issue); anything else fails the harness.
/// `FAIL = false`: the engine never fails - its results are the literal `Ok(())`, so no `Result<_, Error>` value with a
/// symbolic discriminant exists and CBMC does not explore the drop glue of `Error` (Backtrace frames, anyhow source, context
/// strings) on infeasible paths.
#[derive(Debug)]
pub struct MemIo<const NP: usize, const FAIL: bool = false> {
    pub dev: std::sync::Arc<MemDev<NP>>,
    pub base_pages: [usize; 4],
    /// if set, the n-th read (0-based) returns an I/O error instead of data
    pub fail_read_at: Option<usize>,
    pub reads: std::cell::Cell<usize>,
}
unsafe impl<const NP: usize, const FAIL: bool> Send for MemIo<NP, FAIL> {}
unsafe impl<const NP: usize, const FAIL: bool> Sync for MemIo<NP, FAIL> {}
impl<const NP: usize, const FAIL: bool> crate::io::engine::IoEngine for MemIo<NP, FAIL> {
    fn read(
        &self,
        mut buf: Box<dyn crate::io::bytes::IoBufMut>,
        partition: &dyn crate::io::device::Partition,
        offset: u64,
    ) -> crate::io::engine::IoHandle {
        let n = buf.len();
        assert!(offset as usize % HPAGE == 0 && n % HPAGE == 0, "harness device: unaligned read");
        assert!(offset as usize + n <= partition.size(), "harness device: read beyond partition");
        let first = self.base_pages[partition.id() as usize] + offset as usize / HPAGE;
        let idx = self.reads.get();
        self.reads.set(idx + 1);
        let res = if FAIL && self.fail_read_at == Some(idx) {
            Err(foyer_common::error::Error::new(foyer_common::error::ErrorKind::Io, "harness: injected read error"))
        } else {
            let mut p = 0;
            while p < n / HPAGE {
                buf[p * HPAGE..(p + 1) * HPAGE].copy_from_slice(&self.dev.page(first + p)[..]);
                p += 1;
            }
            Ok(())
        };
        let fut: futures_core::future::BoxFuture<'static, (Box<dyn crate::io::bytes::IoB>, foyer_common::error::Result<()>)> =
            Box::pin(std::future::ready((buf.into_iob(), res)));
        fut.into()
    }
    fn write(
        &self,
        buf: Box<dyn crate::io::bytes::IoBuf>,
        partition: &dyn crate::io::device::Partition,
        offset: u64,
    ) -> crate::io::engine::IoHandle {
        let n = buf.len();
        assert!(offset as usize % HPAGE == 0 && n % HPAGE == 0, "harness device: unaligned write");
        assert!(offset as usize + n <= partition.size(), "harness device: write beyond partition");
        let first = self.base_pages[partition.id() as usize] + offset as usize / HPAGE;
        let mut p = 0;
        while p < n / HPAGE {
            self.dev.page(first + p).copy_from_slice(&buf[p * HPAGE..(p + 1) * HPAGE]);
            p += 1;
        }
        self.dev.writes.set(self.dev.writes.get() + 1);
        let fut: futures_core::future::BoxFuture<'static, (Box<dyn crate::io::bytes::IoB>, foyer_common::error::Result<()>)> =
            Box::pin(std::future::ready((buf.into_iob(), Ok(()))));
        fut.into()
    }
}
