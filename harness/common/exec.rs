// Minimal single-threaded executor + in-memory device for storage harnesses.
// `block_on` polls with a no-op waker; a future that is still Pending after `max_polls` polls fails the harness
// ("Pending with no runnable task" = would hang).

pub fn noop_waker() -> std::task::Waker {
    use std::task::{RawWaker, RawWakerVTable, Waker};
    fn clone(_: *const ()) -> RawWaker {
        RawWaker::new(std::ptr::null(), &VTABLE)
    }
    fn noop(_: *const ()) {}
    static VTABLE: RawWakerVTable = RawWakerVTable::new(clone, noop, noop, noop);
    unsafe { Waker::from_raw(RawWaker::new(std::ptr::null(), &VTABLE)) }
}

pub fn block_on<F: std::future::Future>(fut: F, max_polls: usize) -> F::Output {
    let mut fut = std::pin::pin!(fut);
    let waker = noop_waker();
    let mut cx = std::task::Context::from_waker(&waker);
    let mut i = 0;
    while i < max_polls {
        if let std::task::Poll::Ready(v) = fut.as_mut().poll(&mut cx) {
            return v;
        }
        i += 1;
    }
    panic!("harness executor: future still Pending (would hang)");
}

/// In-memory device: `NP` pages of 4 KiB, split into partitions by the harness.
pub struct MemDev<const BYTES: usize> {
    pub mem: std::cell::UnsafeCell<[u8; BYTES]>,
    pub writes: std::cell::Cell<usize>,
}
unsafe impl<const BYTES: usize> Send for MemDev<BYTES> {}
unsafe impl<const BYTES: usize> Sync for MemDev<BYTES> {}
impl<const BYTES: usize> std::fmt::Debug for MemDev<BYTES> {
    fn fmt(&self, _f: &mut std::fmt::Formatter<'_>) -> std::fmt::Result {
        Ok(())
    }
}

#[derive(Debug)]
pub struct MemPartition {
    pub id: u32,
    pub base: usize,
    pub size: usize,
}
impl crate::io::device::Partition for MemPartition {
    fn id(&self) -> crate::io::device::PartitionId {
        self.id
    }
    fn size(&self) -> usize {
        self.size
    }
    fn translate(&self, _address: u64) -> (crate::io::device::RawFile, u64) {
        panic!("harness partition has no raw file");
    }
    fn statistics(&self) -> &std::sync::Arc<crate::io::device::statistics::Statistics> {
        panic!("harness partition has no statistics (fastant clock is a foreign call)");
    }
}

/// IoEngine over a MemDev. Partition bases are looked up by partition id (ids 0..4).
#[derive(Debug)]
pub struct MemIo<const BYTES: usize> {
    pub dev: std::sync::Arc<MemDev<BYTES>>,
    pub bases: [usize; 4],
}
impl<const BYTES: usize> crate::io::engine::IoEngine for MemIo<BYTES> {
    fn read(
        &self,
        mut buf: Box<dyn crate::io::bytes::IoBufMut>,
        partition: &dyn crate::io::device::Partition,
        offset: u64,
    ) -> crate::io::engine::IoHandle {
        let base = self.bases[partition.id() as usize] + offset as usize;
        let n = buf.len();
        assert!(offset as usize + n <= partition.size(), "harness device: read beyond partition");
        let mem = unsafe { &*self.dev.mem.get() };
        buf[..n].copy_from_slice(&mem[base..base + n]);
        let fut: futures_core::future::BoxFuture<'static, (Box<dyn crate::io::bytes::IoB>, foyer_common::error::Result<()>)> =
            Box::pin(std::future::ready((buf.into_iob(), Ok(()))));
        fut.into()
    }
    fn write(
        &self,
        buf: Box<dyn crate::io::bytes::IoBuf>,
        partition: &dyn crate::io::device::Partition,
        offset: u64,
    ) -> crate::io::engine::IoHandle {
        let base = self.bases[partition.id() as usize] + offset as usize;
        let n = buf.len();
        assert!(offset as usize + n <= partition.size(), "harness device: write beyond partition");
        let mem = unsafe { &mut *self.dev.mem.get() };
        mem[base..base + n].copy_from_slice(&buf[..n]);
        self.dev.writes.set(self.dev.writes.get() + 1);
        let fut: futures_core::future::BoxFuture<'static, (Box<dyn crate::io::bytes::IoB>, foyer_common::error::Result<()>)> =
            Box::pin(std::future::ready((buf.into_iob(), Ok(()))));
        fut.into()
    }
}
