// Common environment stubs for every Kani harness (DESIGN.md section 2).
// `include!`d as `mod stubs { include!(...) }` inside each harness module.
//
// Every stub here is part of the trusted base of every claim that uses it:
//  * tracing: callsites are never interested, events are never dispatched (logging has an empty body);
//  * parking_lot slow paths: reached only when a lock is requested while it is held (sequential harness),
//    i.e. a self-deadlock -> panic with a recognisable message (this is the C16 oracle);
//  * mixtrics bucket builders: return an empty Vec (metrics are no-ops; f64 powf loop avoided);
//  * Backtrace::capture / fmt::format: empty (error messages are not the subject of any property).



pub fn tracing_interest_never(_this: &'static tracing::callsite::DefaultCallsite) -> tracing::subscriber::Interest {
    tracing::subscriber::Interest::never()
}

pub fn tracing_is_enabled_false(_meta: &tracing::Metadata<'static>, _interest: tracing::subscriber::Interest) -> bool {
    false
}

pub fn tracing_event_dispatch_noop<'a>(_metadata: &'static tracing::Metadata<'static>, _fields: &'a tracing::field::ValueSet<'_>)
where
    'a: 'a,
{
}

pub fn rwlock_lock_exclusive_slow(_this: &parking_lot::RawRwLock, _timeout: Option<std::time::Instant>) -> bool {
    panic!("deadlock: RawRwLock::lock_exclusive_slow reached (lock requested while held)");
}
pub fn rwlock_lock_shared_slow(
    _this: &parking_lot::RawRwLock,
    _recursive: bool,
    _timeout: Option<std::time::Instant>,
) -> bool {
    panic!("deadlock: RawRwLock::lock_shared_slow reached (lock requested while held)");
}
pub fn rwlock_unlock_exclusive_slow(_this: &parking_lot::RawRwLock, _force_fair: bool) {
    panic!("deadlock: RawRwLock::unlock_exclusive_slow reached (parked waiter in a sequential harness)");
}
pub fn rwlock_unlock_shared_slow(_this: &parking_lot::RawRwLock) {
    panic!("deadlock: RawRwLock::unlock_shared_slow reached (parked waiter in a sequential harness)");
}
pub fn mutex_lock_slow(_this: &parking_lot::RawMutex, _timeout: Option<std::time::Instant>) -> bool {
    panic!("deadlock: RawMutex::lock_slow reached (lock requested while held)");
}
pub fn mutex_unlock_slow(_this: &parking_lot::RawMutex, _force_fair: bool) {
    panic!("deadlock: RawMutex::unlock_slow reached (parked waiter in a sequential harness)");
}

pub fn buckets_empty(_a: f64, _b: f64, _n: usize) -> Vec<f64> {
    Vec::new()
}

pub fn backtrace_disabled() -> std::backtrace::Backtrace {
    std::backtrace::Backtrace::disabled()
}

pub fn fmt_format_empty(_args: std::fmt::Arguments<'_>) -> String {
    String::new()
}

pub fn handle_alloc_error_panic(_layout: std::alloc::Layout) -> ! {
    panic!("allocation failure (not modelled)");
}

pub fn panic_nounwind_fmt_stub(_fmt: std::fmt::Arguments<'_>, _force_no_backtrace: bool) -> ! {
    panic!("core::panicking::panic_nounwind_fmt (unsafe precondition violated)");
}
pub fn panic_nounwind_stub(_expr: &'static str) -> ! {
    panic!("core::panicking::panic_nounwind (unsafe precondition violated)");
}
/// Deallocation is a no-op (memory is leaked): freeing an object whose identity is symbolic (which record was evicted /
/// removed) makes CBMC case-split its deallocation bookkeeping over every candidate object and costs 10-100x.
/// Consequence: use-after-free is NOT visible in harnesses that use this stub; the thorough tier's memory-safety
/// runs do not use it.
pub unsafe fn dealloc_noop(_ptr: *mut u8, _layout: std::alloc::Layout) {}
