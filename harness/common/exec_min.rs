// Minimal single-threaded executor + in-memory device for storage harnesses.
// `block_on` polls with a no-op waker; a future that is still Pending after `max_polls` polls fails the harness
// ("Pending with no runnable task" = would hang).

pub fn noop_waker() -> std::task::Waker {
    use std::task::{RawWaker, RawWakerVTable, Waker};
    fn clone(_: *const ()) -> RawWaker {
        RawWaker::new(std::ptr::null(), &VTABLE)
    }
    fn noop(_: *const ()) {}
    static VTABLE: RawWakerVTable = RawWakerVTable::new(clone, noop, noop, noop);
    unsafe { Waker::from_raw(RawWaker::new(std::ptr::null(), &VTABLE)) }
}

pub fn block_on<F: std::future::Future>(fut: F, max_polls: usize) -> F::Output {
    let mut fut = std::pin::pin!(fut);
    let waker = noop_waker();
    let mut cx = std::task::Context::from_waker(&waker);
    let mut i = 0;
    while i < max_polls {
        if let std::task::Poll::Ready(v) = fut.as_mut().poll(&mut cx) {
            return v;
        }
        i += 1;
    }
    panic!("harness executor: future still Pending (would hang)");
}

