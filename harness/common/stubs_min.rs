// Minimal stub functions (no tracing / parking_lot dependency).
pub fn backtrace_disabled() -> std::backtrace::Backtrace {
    std::backtrace::Backtrace::disabled()
}
pub fn fmt_format_empty(_args: std::fmt::Arguments<'_>) -> String {
    String::new()
}
pub fn panic_nounwind_fmt_stub(_fmt: std::fmt::Arguments<'_>, _force_no_backtrace: bool) -> ! {
    panic!("core::panicking::panic_nounwind_fmt (unsafe precondition violated)");
}
pub fn panic_nounwind_stub(_expr: &'static str) -> ! {
    panic!("core::panicking::panic_nounwind (unsafe precondition violated)");
}
