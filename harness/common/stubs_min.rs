// Minimal stub functions (no tracing / parking_lot dependency).
pub fn backtrace_disabled() -> std::backtrace::Backtrace {
    std::backtrace::Backtrace::disabled()
}
pub fn fmt_format_empty(_args: std::fmt::Arguments<'_>) -> String {
    String::new()
}
pub fn panic_nounwind_fmt_stub(_fmt: std::fmt::Arguments<'_>, _force_no_backtrace: bool) -> ! {
    panic!("core::panicking::panic_nounwind_fmt (unsafe precondition violated)");
}
pub fn panic_nounwind_stub(_expr: &'static str) -> ! {
    panic!("core::panicking::panic_nounwind (unsafe precondition violated)");
}
/// Deallocation is a no-op (memory is leaked): freeing an object whose identity is symbolic (which record was evicted /
/// removed) makes CBMC case-split its deallocation bookkeeping over every candidate object and costs 10-100x.
/// Consequence: use-after-free is NOT visible in harnesses that use this stub; the thorough tier's memory-safety
/// runs do not use it.
pub unsafe fn dealloc_noop(_ptr: *mut u8, _layout: std::alloc::Layout) {}
