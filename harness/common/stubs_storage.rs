// Storage-side stub functions: the common set minus mixtrics, plus the checksum stand-in.
pub fn tracing_interest_never(_this: &'static tracing::callsite::DefaultCallsite) -> tracing::subscriber::Interest {
    tracing::subscriber::Interest::never()
}
pub fn tracing_is_enabled_false(_meta: &tracing::Metadata<'static>, _interest: tracing::subscriber::Interest) -> bool {
    false
}
pub fn tracing_event_dispatch_noop<'a>(_metadata: &'static tracing::Metadata<'static>, _fields: &'a tracing::field::ValueSet<'_>)
where
    'a: 'a,
{
}
pub fn rwlock_lock_exclusive_slow(_this: &parking_lot::RawRwLock, _timeout: Option<std::time::Instant>) -> bool {
    panic!("deadlock: RawRwLock::lock_exclusive_slow reached (lock requested while held)");
}
pub fn rwlock_lock_shared_slow(_this: &parking_lot::RawRwLock, _recursive: bool, _timeout: Option<std::time::Instant>) -> bool {
    panic!("deadlock: RawRwLock::lock_shared_slow reached (lock requested while held)");
}
pub fn rwlock_unlock_exclusive_slow(_this: &parking_lot::RawRwLock, _force_fair: bool) {
    panic!("deadlock: RawRwLock::unlock_exclusive_slow reached");
}
pub fn rwlock_unlock_shared_slow(_this: &parking_lot::RawRwLock) {
    panic!("deadlock: RawRwLock::unlock_shared_slow reached");
}
pub fn mutex_lock_slow(_this: &parking_lot::RawMutex, _timeout: Option<std::time::Instant>) -> bool {
    panic!("deadlock: RawMutex::lock_slow reached (lock requested while held)");
}
pub fn mutex_unlock_slow(_this: &parking_lot::RawMutex, _force_fair: bool) {
    panic!("deadlock: RawMutex::unlock_slow reached");
}
pub fn backtrace_disabled() -> std::backtrace::Backtrace {
    std::backtrace::Backtrace::disabled()
}
pub fn fmt_format_empty(_args: std::fmt::Arguments<'_>) -> String {
    String::new()
}
pub fn panic_nounwind_fmt_stub(_fmt: std::fmt::Arguments<'_>, _force_no_backtrace: bool) -> ! {
    panic!("core::panicking::panic_nounwind_fmt (unsafe precondition violated)");
}
pub fn panic_nounwind_stub(_expr: &'static str) -> ! {
    panic!("core::panicking::panic_nounwind (unsafe precondition violated)");
}
/// Stand-in for xxhash64 (a multiply-heavy loop CBMC cannot afford): deterministic, depends on every byte and on the
/// length, NOT collision resistant.  Claims that use it are phrased "accepted => stored checksum == checksum64(bytes)".
pub fn checksum64_fold(buf: &[u8]) -> u64 {
    let mut acc: u64 = 0x9E37_79B9_7F4A_7C15 ^ (buf.len() as u64);
    let mut i = 0;
    while i < buf.len() {
        acc = acc.rotate_left(5) ^ (buf[i] as u64);
        i += 1;
    }
    acc
}
/// Clock stub: `Instant::now()` is a foreign call; durations are only fed to (no-op) metrics.
pub fn instant_now_zero() -> std::time::Instant {
    unsafe { std::mem::zeroed() }
}
/// Deallocation is a no-op (memory is leaked): freeing an object whose identity is symbolic (which record was evicted /
/// removed) makes CBMC case-split its deallocation bookkeeping over every candidate object and costs 10-100x.
/// Consequence: use-after-free is NOT visible in harnesses that use this stub; the thorough tier's memory-safety
/// runs do not use it.
pub unsafe fn dealloc_noop(_ptr: *mut u8, _layout: std::alloc::Layout) {}
