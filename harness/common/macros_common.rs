// Stub set for crates that do not depend on tracing / parking_lot directly (foyer-common).
macro_rules! verif_harness {
    ($(#[$m:meta])* $name:ident, $unwind:expr, $body:block) => {
        #[kani::proof]
        #[kani::unwind($unwind)]
        #[kani::stub(std::alloc::dealloc, stubs::dealloc_noop)]
        #[kani::stub(std::backtrace::Backtrace::capture, stubs::backtrace_disabled)]
        #[kani::stub(alloc::fmt::format, stubs::fmt_format_empty)]
        #[kani::stub(core::panicking::panic_nounwind_fmt, stubs::panic_nounwind_fmt_stub)]
        #[kani::stub(core::panicking::panic_nounwind, stubs::panic_nounwind_stub)]
        #[kani::stub(crate::error::Error::with_context, crate::error::Error::verif_with_context)]
        #[kani::stub(crate::error::Error::new, crate::error::Error::verif_new)]
        #[kani::stub(crate::error::Error::with_source, crate::error::Error::verif_with_source)]
        $(#[$m])*
        fn $name() $body
    };
}
