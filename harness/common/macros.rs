// `verif_harness!{ name, unwind, { body } }` : a #[kani::proof] with the common stub set attached.
// The including module must contain `mod stubs { include!("/verif/harness/common/stubs.rs"); }`.
macro_rules! verif_harness {
    ($(#[$m:meta])* $name:ident, $unwind:expr, $body:block) => {
        #[kani::proof]
        #[kani::unwind($unwind)]
        #[kani::stub(tracing::callsite::DefaultCallsite::interest, stubs::tracing_interest_never)]
        #[kani::stub(tracing::__macro_support::__is_enabled, stubs::tracing_is_enabled_false)]
        #[kani::stub(tracing::Event::dispatch, stubs::tracing_event_dispatch_noop)]
        #[kani::stub(parking_lot::RawRwLock::lock_exclusive_slow, stubs::rwlock_lock_exclusive_slow)]
        #[kani::stub(parking_lot::RawRwLock::lock_shared_slow, stubs::rwlock_lock_shared_slow)]
        #[kani::stub(parking_lot::RawRwLock::unlock_exclusive_slow, stubs::rwlock_unlock_exclusive_slow)]
        #[kani::stub(parking_lot::RawRwLock::unlock_shared_slow, stubs::rwlock_unlock_shared_slow)]
        #[kani::stub(parking_lot::RawMutex::lock_slow, stubs::mutex_lock_slow)]
        #[kani::stub(parking_lot::RawMutex::unlock_slow, stubs::mutex_unlock_slow)]
        #[kani::stub(mixtrics::metrics::Buckets::exponential, stubs::buckets_empty)]
        #[kani::stub(mixtrics::metrics::Buckets::linear, stubs::buckets_empty)]
        #[kani::stub(foyer_common::metrics::Metrics::noop, foyer_common::metrics::Metrics::verif_noop)]
        #[kani::stub(std::alloc::dealloc, stubs::dealloc_noop)]
        #[kani::stub(std::backtrace::Backtrace::capture, stubs::backtrace_disabled)]
        #[kani::stub(alloc::fmt::format, stubs::fmt_format_empty)]
        #[kani::stub(core::panicking::panic_nounwind_fmt, stubs::panic_nounwind_fmt_stub)]
        #[kani::stub(core::panicking::panic_nounwind, stubs::panic_nounwind_stub)]
        #[kani::stub(foyer_common::error::Error::with_context, foyer_common::error::Error::verif_with_context)]
        #[kani::stub(foyer_common::error::Error::new, foyer_common::error::Error::verif_new)]
        #[kani::stub(foyer_common::error::Error::with_source, foyer_common::error::Error::verif_with_source)]
        $(#[$m])*
        fn $name() $body
    };
}
