// Kani harnesses for foyer-storage/src/engine/block/serde.rs — C03-D1 / C08-R3 (entry header).
#![allow(dead_code, unused_imports)]
use super::*;

#[allow(dead_code, unused)]
mod stubs {
    include!("/verif/harness/common/stubs_storage.rs");
}
include!("/verif/harness/common/macros_storage.rs");

// C03-D1: arbitrary 36 bytes -> no panic; Ok(h) => magic matches, compression tag valid, h re-serialises to the
// same bytes (so nothing in the header is invented by the decoder).
verif_harness! { c03_d1_header_read_arbitrary, 38, {
    let bytes: [u8; 36] = kani::any();
    match EntryHeader::read(&bytes[..]) {
        Ok(h) => {
            let v = u32::from_be_bytes([bytes[32], bytes[33], bytes[34], bytes[35]]);
            assert!(v & ENTRY_MAGIC_MASK == ENTRY_MAGIC, "C03-D1: header accepted with wrong magic");
            assert!((v as u8) <= 2, "C03-D1: header accepted with invalid compression tag");
            let mut out = [0u8; 36];
            h.write(&mut out[..]);
            let mut i = 0;
            while i < 36 { assert!(out[i] == bytes[i], "C03-D1: decoded header does not re-serialise to its input"); i += 1; }
            kani::cover!(true, "accepted header");
            std::mem::forget(h);
        }
        Err(e) => {
            let v = u32::from_be_bytes([bytes[32], bytes[33], bytes[34], bytes[35]]);
            assert!(v & ENTRY_MAGIC_MASK != ENTRY_MAGIC || (v as u8) > 2, "C03-D1: valid header rejected");
            kani::cover!(true, "rejected header");
            std::mem::forget(e);
        }
    }
    kani::cover!(true, "end reached");
} }

// C08-R3 (header part): write -> read is the identity on every field value.
verif_harness! { c08_r3_header_roundtrip, 40, {
    let c: u8 = kani::any();
    kani::assume(c <= 2);
    let h = EntryHeader { key_len: kani::any(), value_len: kani::any(), hash: kani::any(), sequence: kani::any(), checksum: kani::any(),
        compression: Compression::try_from(c).unwrap() };
    let mut out = [0u8; 36];
    h.write(&mut out[..]);
    let g = EntryHeader::read(&out[..]).unwrap();
    assert!(g == h, "C08-R3: header round trip changed a field");
    assert!(EntryHeader::serialized_len() == 36);
    kani::cover!(true, "end reached");
} }

// native replay of counterexamples: bin/check writes the unit test Kani generated (`--concrete-playback=print`) into the
// included file and runs `cargo kani playback`; the file is empty otherwise.
#[allow(unused_imports, dead_code)]
mod playback {
    use super::*;
    include!("/verif/harness/playback/foyer-storage/engine__block__serde__verif_kani.rs");
}
