// Kani harnesses for foyer-storage/src/engine/block/tombstone.rs — C10 (tombstone log arithmetic) and C03-D4.
#![allow(dead_code, unused_imports)]
use super::*;
use crate::io::device::{statistics::Statistics, throttle::Throttle};

#[allow(dead_code, unused)]
mod stubs {
    include!("/verif/harness/common/stubs_storage.rs");
}
include!("/verif/harness/common/macros_storage.rs");
#[allow(dead_code, unused)]
mod exec {
    include!("/verif/harness/common/exec.rs");
}
use exec::*;

// ---- T4: calculate_slot_addr over every slot / page count ---------------------------------------------------
verif_harness! { c10_t4_slot_addr, 2, {
    let pages: usize = kani::any();
    kani::assume(pages >= 1 && pages <= (1 << 20));
    let slot: usize = kani::any();
    kani::assume(slot < (1usize << 40));
    let (page, off) = TombstoneLog::calculate_slot_addr(pages, slot);
    assert!((page as usize) < pages, "C10-T4: page outside the log");
    assert!(off % Tombstone::SERIALIZED_LEN == 0 && off + Tombstone::SERIALIZED_LEN <= PAGE, "C10-T4: slot offset not a slot inside the page");
    // injective within one lap
    let other: usize = kani::any();
    kani::assume(other < pages * TombstoneLog::SLOTS_PER_PAGE && slot < pages * TombstoneLog::SLOTS_PER_PAGE && other != slot);
    let (p2, o2) = TombstoneLog::calculate_slot_addr(pages, other);
    assert!(p2 != page || o2 != off, "C10-T4: two slots of one lap share an address");
    // consecutive slots are consecutive addresses (ring order)
    let (p3, o3) = TombstoneLog::calculate_slot_addr(pages, slot + 1);
    if off + Tombstone::SERIALIZED_LEN < PAGE {
        assert!(p3 == page && o3 == off + Tombstone::SERIALIZED_LEN);
    } else {
        assert!(o3 == 0 && (p3 as usize) == (page as usize + 1) % pages);
    }
    kani::cover!(true, "end reached");
} }

// ---- shared device builder ----------------------------------------------------------------------------------
const DEV_PAGES: usize = 3;

/// Kani 0.68 does not collect `<dyn Any>::is::<T>` when it is reached only through the trait-upcast in
/// `<dyn IoB>::try_into_io_slice_mut` ("missing_definition": the call then returns an arbitrary bool).  Naming the
/// instances here makes the compiler emit them; the real downcast code is executed unchanged.
fn force_any_instances() {
    let a: Box<dyn std::any::Any> = Box::new(crate::io::bytes::IoSliceMut::new(PAGE));
    assert!(a.is::<crate::io::bytes::IoSliceMut>());
    assert!(!a.is::<crate::io::bytes::IoSlice>());
    std::mem::forget(a);
}

fn mk_dev(part_pages: [usize; 2]) -> (Arc<MemDev<DEV_PAGES>>, Vec<Arc<dyn Partition>>, Arc<dyn IoEngine>) {
    force_any_instances();
    let dev = Arc::new(MemDev::<DEV_PAGES>::zeroed());
    let mut parts: Vec<Arc<dyn Partition>> = Vec::with_capacity(2);
    let mut base_pages = [0usize; 4];
    let mut base = 0;
    let mut i = 0;
    while i < 2 {
        if part_pages[i] > 0 {
            base_pages[i] = base;
            parts.push(Arc::new(MemPartition { id: i as u32, base_page: base, size: part_pages[i] * PAGE }));
            base += part_pages[i];
        }
        i += 1;
    }
    let io: Arc<dyn IoEngine> = Arc::new(MemIo::<DEV_PAGES> { dev: dev.clone(), base_pages, fail_read_at: None, reads: std::cell::Cell::new(0) });
    (dev, parts, io)
}

fn put(dev: &MemDev<DEV_PAGES>, global_slot: usize, hash: u64, seq: u64) {
    let page = dev.page(global_slot / 256);
    let at = (global_slot % 256) * 16;
    page[at..at + 8].copy_from_slice(&hash.to_be_bytes());
    page[at + 8..at + 16].copy_from_slice(&seq.to_be_bytes());
}

/// T1: the log image is all zero except the newest tombstone (symbolic hash/sequence) at the given global slot and
/// one older tombstone elsewhere.  After `open` the append position is the slot after the newest tombstone and the
/// page buffer holds that slot's page.  Position is concrete per harness (page loop of 256 slots per page), values
/// are symbolic.
fn t1(part_pages: [usize; 2], newest_slot: usize, older_slot: usize) {
    let pages = part_pages[0] + part_pages[1];
    let (dev, parts, io) = mk_dev(part_pages);
    let s_new: u64 = kani::any();
    let s_old: u64 = kani::any();
    kani::assume(s_old >= 1 && s_new > s_old);
    let h_new: u64 = kani::any();
    let h_old: u64 = kani::any();
    put(&dev, newest_slot, h_new, s_new);
    put(&dev, older_slot, h_old, s_old);
    let mut recovered = Vec::with_capacity(4);
    let log = block_on(TombstoneLog::open(parts, io, &mut recovered), 4).unwrap();
    assert!(log.pages == pages);
    assert!(recovered.len() == 2, "C10-T1: recovered tombstone count differs from the log contents");
    let (a, b) = (&recovered[0], &recovered[1]);
    assert!((a.hash == h_new && a.sequence == s_new && b.hash == h_old && b.sequence == s_old)
         || (b.hash == h_new && b.sequence == s_new && a.hash == h_old && a.sequence == s_old), "C10-T1: recovered tombstones differ from the log contents");
    let inner = log.inner.try_lock().unwrap();
    assert!(inner.slot == newest_slot + 1, "C10-T1: append position after reopen is not the slot after the newest tombstone");
    let (page, _) = TombstoneLog::calculate_slot_addr(pages, newest_slot + 1);
    assert!(inner.buffer.page == page, "C10-T1: page buffer does not hold the page of the append position");
    kani::cover!(true, "end reached");
    std::mem::forget(inner);
    std::mem::forget(recovered);
    std::mem::forget(log);
}

macro_rules! t1h {
    ($name:ident, $pp:expr, $newest:expr, $older:expr) => {
        verif_harness! { $name, 260, { t1($pp, $newest, $older); } }
    };
}
t1h!(c10_t1_open_p0_s5, [2, 0], 5, 2);
t1h!(c10_t1_open_p0_s255, [2, 0], 255, 0);
t1h!(c10_t1_open_p1_s256, [2, 0], 256, 255);
t1h!(c10_t1_open_p1_s300, [2, 0], 300, 7);
t1h!(c10_t1_open_p2_s600, [3, 0], 600, 300);
t1h!(c10_t1_open_2parts_s300, [1, 1], 300, 7);

/// T3: open (image with one tombstone at `newest_slot`) -> append one symbolic tombstone -> it lands in the slot after
/// the newest one (device bytes), nothing else changes -> reopen recovers both and moves the tail one further.
fn t3(part_pages: [usize; 2], newest_slot: usize) {
    let pages = part_pages[0] + part_pages[1];
    let (dev, parts, io) = mk_dev(part_pages);
    let s0: u64 = kani::any();
    kani::assume(s0 >= 1 && s0 < u64::MAX);
    let h0: u64 = kani::any();
    put(&dev, newest_slot, h0, s0);
    let mut recovered = Vec::with_capacity(4);
    let log = block_on(TombstoneLog::open(parts.clone(), io.clone(), &mut recovered), 4).unwrap();
    let t = Tombstone { hash: kani::any(), sequence: kani::any() };
    kani::assume(t.sequence > s0);
    let one = [t.clone()];
    block_on(log.append(one.iter()), 8).unwrap();
    // device image: the new tombstone sits in the next slot of the ring, the old one is intact
    let next = (newest_slot + 1) % (pages * TombstoneLog::SLOTS_PER_PAGE);
    let rd = |slot: usize| -> (u64, u64) {
        let mem = dev.page(slot / 256);
        let at = (slot % 256) * 16;
        let mut a = [0u8; 8];
        a.copy_from_slice(&mem[at..at + 8]);
        let mut b = [0u8; 8];
        b.copy_from_slice(&mem[at + 8..at + 16]);
        (u64::from_be_bytes(a), u64::from_be_bytes(b))
    };
    assert!(rd(next) == (t.hash, t.sequence), "C10-T2: appended tombstone is not at the slot after the newest one");
    assert!(rd(newest_slot) == (h0, s0), "C10-T2: append overwrote the newest logged tombstone");
    std::mem::forget(log);
    // restart
    let mut recovered2 = Vec::with_capacity(4);
    let log2 = block_on(TombstoneLog::open(parts, io, &mut recovered2), 4).unwrap();
    assert!(recovered2.len() == 2, "C10-T3: a flushed tombstone is missing after reopen");
    let inner = log2.inner.try_lock().unwrap();
    assert!(inner.slot == next + 1, "C10-T3: tail after the second reopen is not one slot further");
    kani::cover!(true, "end reached");
    std::mem::forget(inner);
    std::mem::forget(recovered);
    std::mem::forget(recovered2);
    std::mem::forget(log2);
}
macro_rules! t3h {
    ($name:ident, $pp:expr, $newest:expr) => {
        verif_harness! { $name, 260, { t3($pp, $newest); } }
    };
}
t3h!(c10_t3_cycle_p0_s9, [2, 0], 9);
t3h!(c10_t3_cycle_p0_s255, [2, 0], 255);
t3h!(c10_t3_cycle_p1_s300, [2, 0], 300);

/// T2: append addressing from an arbitrary tail.  The log object is built directly at a symbolic tail slot (what `open`
/// computes is decided by T1; building the state directly avoids its 256-slots-per-page scan), then a batch of 1..=3
/// symbolic tombstones is appended.  Oracle, on the device bytes after `append` returned (= "flushed"): tombstone i of
/// the batch sits at ring slot (tail + i) mod capacity - also when the batch crosses a page boundary or wraps around -
/// and no other slot of the log changed.
fn t2(pages: usize, nbatch: usize, tail: usize) {
    // the tail is concrete per harness (a symbolic offset into the 4 KiB page buffer is what makes CBMC's encoding
    // explode); the tombstones are symbolic
    let (dev, parts, io) = mk_dev([pages, 0]);
    let cap = pages * TombstoneLog::SLOTS_PER_PAGE;
    let (page, _) = TombstoneLog::calculate_slot_addr(pages, tail);
    let buffer = block_on(PageBuffer::open(io.clone(), parts.clone(), page), 4).unwrap();
    let log = TombstoneLog { inner: Arc::new(Mutex::new(TombstoneLogInner { buffer, slot: tail })), pages };
    let ts: [Tombstone; 3] = std::array::from_fn(|_| Tombstone { hash: kani::any(), sequence: kani::any() });
    block_on(log.append(ts.iter().take(nbatch)), 12).unwrap();
    let rd = |slot: usize| -> (u64, u64) {
        let mem = dev.page(slot / 256);
        let at = (slot % 256) * 16;
        let mut a = [0u8; 8];
        a.copy_from_slice(&mem[at..at + 8]);
        let mut b = [0u8; 8];
        b.copy_from_slice(&mem[at + 8..at + 16]);
        (u64::from_be_bytes(a), u64::from_be_bytes(b))
    };
    let mut i = 0;
    while i < 3 {
        if i < nbatch {
            let at = (tail + i) % cap;
            assert!(rd(at) == (ts[i].hash, ts[i].sequence), "C10-T2: a flushed tombstone is not on the device at its ring slot (lost at a page switch?)");
        }
        i += 1;
    }
    // a slot outside the batch is untouched (device was all zero)
    let other: usize = kani::any();
    kani::assume(other < cap);
    let mut in_batch = false;
    let mut i = 0;
    while i < 3 {
        if i < nbatch && other == (tail + i) % cap { in_batch = true; }
        i += 1;
    }
    if !in_batch {
        assert!(rd(other) == (0, 0), "C10-T2: append wrote outside the slots of its batch");
    }
    let inner = log.inner.try_lock().unwrap();
    assert!(inner.slot == tail + nbatch, "C10-T2: tail not advanced by the batch size");
    kani::cover!((tail % 256) + nbatch > 256, "opt: batch crosses a page boundary");
    kani::cover!(true, "end reached");
    std::mem::forget(inner);
    std::mem::forget(log);
}
macro_rules! t2h {
    ($name:ident, $pages:expr, $n:expr, $tail:expr) => {
        verif_harness! { $name, 8, { t2($pages, $n, $tail); } }
    };
}
// tails at the first page boundary and at the wrap-around of a 2-page log
t2h!(c10_t2_append_2_at255, 2, 2, 255);
t2h!(c10_t2_append_3_at254, 2, 3, 254);
t2h!(c10_t2_append_3_at255, 2, 3, 255);
t2h!(c10_t2_append_2_at256, 2, 2, 256);
t2h!(c10_t2_append_2_at511_wrap, 2, 2, 511);
t2h!(c10_t2_append_1_at700, 3, 1, 700);

// C03-D4: Tombstone::read on 16 arbitrary bytes never panics and is the inverse of write.
verif_harness! { c03_d4_tombstone_read, 18, {
    let b: [u8; 16] = kani::any();
    let t = Tombstone::read(&b[..]);
    let mut out = [0u8; 16];
    t.write(&mut out[..]);
    let mut i = 0;
    while i < 16 { assert!(out[i] == b[i]); i += 1; }
    kani::cover!(true, "end reached");
} }

// ---------------------------------------------------------------------------------------------------------------------
// I/O environment stubs for PageBuffer (the page-granular device access underneath the log).  The shipped bodies end in
// `<dyn IoB>::try_into_io_slice_mut` (trait upcast to `dyn Any`, no body under Kani's vtable restriction) and in `?` on a
// `Result<_, Error>` whose drop glue CBMC explores for minutes.  The stubs perform the SAME device access through the
// same `IoEngine` object with an unchecked downcast and no error path (the harness engine cannot fail).  `locate` runs
// as shipped.  TombstoneLog::{open, append} - tail recovery, slot addressing, flush-before-load order - run as shipped.
// ---------------------------------------------------------------------------------------------------------------------
fn unchecked_io_slice_mut(b: Box<dyn crate::io::bytes::IoB>) -> IoSliceMut {
    let raw = Box::into_raw(b) as *mut IoSliceMut;
    *unsafe { Box::from_raw(raw) }
}
impl PageBuffer {
    pub async fn verif_open(io_engine: Arc<dyn IoEngine>, partitions: Vec<Arc<dyn Partition>>, page: u32) -> Result<Self> {
        let mut this = Self { buffer: Some(IoSliceMut::new(PAGE)), io_engine, partitions, page };
        this.verif_update().await?;
        Ok(this)
    }
    pub async fn verif_update(&mut self) -> Result<()> {
        let buf = self.buffer.take().unwrap();
        let (partition, offset) = self.locate(self.page);
        let (buf, res) = self.io_engine.read(Box::new(buf), self.partitions[partition].as_ref(), offset).await;
        self.buffer = Some(unchecked_io_slice_mut(buf));
        std::mem::forget(res);
        Ok(())
    }
    pub async fn verif_flush(&mut self) -> Result<()> {
        let buf = self.buffer.take().unwrap();
        let (partition, offset) = self.locate(self.page);
        let (buf, res) = self.io_engine.write(Box::new(buf), self.partitions[partition].as_ref(), offset).await;
        self.buffer = Some(unchecked_io_slice_mut(buf));
        std::mem::forget(res);
        Ok(())
    }
}
macro_rules! tomb_harness {
    ($name:ident, $unwind:expr, $body:block) => {
        verif_harness! {
            #[kani::stub(crate::engine::block::tombstone::PageBuffer::open, crate::engine::block::tombstone::PageBuffer::verif_open)]
            #[kani::stub(crate::engine::block::tombstone::PageBuffer::update, crate::engine::block::tombstone::PageBuffer::verif_update)]
            #[kani::stub(crate::engine::block::tombstone::PageBuffer::flush, crate::engine::block::tombstone::PageBuffer::verif_flush)]
            $name, $unwind, $body
        }
    };
}
tomb_harness!(exp_e_pagebuffer_stubbed, 8, {
    let (dev, parts, io) = mk_dev([2, 0]);
    let mut buffer = block_on(PageBuffer::open(io.clone(), parts.clone(), 1), 4).unwrap();
    let h: u64 = kani::any();
    buffer.as_mut()[16..24].copy_from_slice(&h.to_be_bytes());
    block_on(buffer.flush(), 4).unwrap();
    assert!(dev.page(1)[16] == h.to_be_bytes()[0]);
    kani::cover!(true, "end reached");
    std::mem::forget(buffer);
});

// native replay of counterexamples: bin/check writes the unit test Kani generated (`--concrete-playback=print`) into the
// included file and runs `cargo kani playback`; the file is empty otherwise.
#[allow(unused_imports, dead_code)]
mod playback {
    use super::*;
    include!("/verif/harness/playback/foyer-storage/engine__block__tombstone__verif_kani.rs");
}
