// Kani harnesses for foyer-storage/src/engine/block/{recover,scanner}.rs — C03-D5 / C07-W2: what a block scan yields from
// device images written with the real blob-index writer and then damaged.
#![allow(dead_code, unused_imports, unused_variables)]
use super::*;
use crate::{
    engine::block::buffer::{BlobEntryIndex, BlobIndex},
    io::{
        PAGE,
        bytes::IoSliceMut,
        device::Partition,
        engine::IoEngine,
    },
};

#[allow(dead_code, unused)]
mod stubs {
    include!("/verif/harness/common/stubs_storage.rs");
    pub fn checksum64_head(buf: &[u8]) -> u64 {
        let mut acc: u64 = 0x9E37_79B9_7F4A_7C15 ^ (buf.len() as u64);
        if buf.len() >= 32 {
            let w = |i: usize| u64::from_le_bytes([buf[i], buf[i + 1], buf[i + 2], buf[i + 3], buf[i + 4], buf[i + 5], buf[i + 6], buf[i + 7]]);
            acc = acc.rotate_left(5) ^ w(0);
            acc = acc.rotate_left(7) ^ w(8);
            acc = acc.rotate_left(11) ^ w(16);
            acc = acc.rotate_left(13) ^ w(24);
        }
        acc
    }
}
include!("/verif/harness/common/macros_storage.rs");
#[allow(dead_code, unused)]
mod exec {
    include!("/verif/harness/common/exec.rs");
}
use exec::*;

const NP: usize = 4; // one block of 4 pages (16 KiB)
const INDEX: usize = PAGE;

fn mk_block(fail_read_at: Option<usize>) -> (Arc<MemDev<NP>>, Block) {
    let dev = Arc::new(MemDev::<NP>::zeroed());
    let part: Arc<dyn Partition> = Arc::new(MemPartition { id: 0, base_page: 0, size: NP * PAGE });
    let io: Arc<dyn IoEngine> = Arc::new(MemIo::<NP, true> { dev: dev.clone(), base_pages: [0; 4], fail_read_at, reads: std::cell::Cell::new(0) });
    (dev, Block::verif_new(7, part, io))
}

/// Write a blob index page holding `n` one-page entries (offsets 4096, 8192, ...) with the real writer into device page `at`.
fn write_index(dev: &MemDev<NP>, at: usize, n: usize, hashes: [u64; 2], seqs: [u64; 2]) {
    let mut bi = BlobIndex::new(IoSliceMut::new(INDEX));
    let mut i = 0;
    while i < n {
        bi.write(&BlobEntryIndex { hash: hashes[i], sequence: seqs[i], offset: (INDEX + i * PAGE) as u32, len: 100 });
        i += 1;
    }
    let page = bi.seal();
    dev.page(at).copy_from_slice(&page[..]);
    std::mem::forget(page);
    std::mem::forget(bi);
}

/// D5a: blob 0 = index page + 2 entries (pages 0..3 of the block), page 3 = arbitrary bytes whose checksum does not match
/// (a 64-bit collision of real xxhash64 is outside the claim).  The scan returns exactly the two genuine entries with the
/// addresses the flusher recorded, and stops; a symbolic read error ends the scan (Quiet) or is returned (Strict).
verif_harness_ns! { #[kani::stub(crate::serde::Checksummer::checksum64, stubs::checksum64_head)] c03_d5a_scan_then_garbage, 6, {
    let fail: Option<usize> = if kani::any() { let n: usize = kani::any(); kani::assume(n < 2); Some(n) } else { None };
    let strict: bool = kani::any();
    let (dev, block) = mk_block(fail);
    let hashes: [u64; 2] = kani::any();
    let s0: u64 = kani::any();
    let s1: u64 = kani::any();
    kani::assume(s0 >= 1 && s1 >= s0);
    write_index(&dev, 0, 2, hashes, [s0, s1]);
    let junk: [u8; 40] = kani::any();
    dev.page(3)[..40].copy_from_slice(&junk);
    {
        let p = dev.page(3);
        let stored = u64::from_be_bytes([p[0], p[1], p[2], p[3], p[4], p[5], p[6], p[7]]);
        kani::assume(stubs::checksum64_head(&p[8..]) != stored);
    }
    let r = block_on(BlockRecoverRunner::run(if strict { RecoverMode::Strict } else { RecoverMode::Quiet }, block, INDEX), 4);
    match (&r, fail) {
        (Ok(v), None) => {
            assert!(v.len() == 2, "C03-D5/C07: scan does not return exactly the entries written before the damaged page");
            assert!(v[0].hash == hashes[0] && v[0].addr.sequence == s0 && v[0].addr.offset == INDEX as u32 && v[0].addr.len == 100 && v[0].addr.block == 7);
            assert!(v[1].hash == hashes[1] && v[1].addr.sequence == s1 && v[1].addr.offset == (INDEX + PAGE) as u32, "C07-W2: recovered address differs from the written one");
        }
        (Ok(v), Some(n)) => {
            assert!(!strict, "C03: strict recovery swallowed a device error");
            assert!(v.len() == if n == 0 { 0 } else { 2 }, "C03-D5: after a read error only the entries scanned before it are kept");
        }
        (Err(_), Some(_)) => assert!(strict, "C03: quiet recovery failed on a device error instead of skipping the block"),
        (Err(_), None) => panic!("C03: recovery failed without a device error"),
    }
    kani::cover!(matches!(r, Ok(ref v) if v.len() == 2), "two entries recovered");
    kani::cover!(true, "end reached");
    std::mem::forget(r);
    std::mem::forget(dev);
} }

/// D5b: the only blob index page of the block has one byte damaged (stored checksum, count or first slot; symbolic position
/// and value): nothing of it is trusted — the scan yields no entry and does not panic.
verif_harness_ns! { #[kani::stub(crate::serde::Checksummer::checksum64, stubs::checksum64_head)] c03_d5b_damaged_index, 6, {
    let (dev, block) = mk_block(None);
    let hashes: [u64; 2] = kani::any();
    write_index(&dev, 0, 2, hashes, [5, 6]);
    let pos: usize = kani::any();
    kani::assume(pos < 40);
    let val: u8 = kani::any();
    let mut head = [0u8; 40];
    head.copy_from_slice(&dev.page(0)[..40]);
    kani::assume(val != head[pos]);
    head[pos] = val;
    dev.page(0)[..40].copy_from_slice(&head);
    let r = block_on(BlockRecoverRunner::run(RecoverMode::Quiet, block, INDEX), 4);
    match &r {
        Ok(v) => assert!(v.is_empty(), "C03-D5: entries recovered from a blob index page whose checksum cannot match"),
        Err(_) => panic!("C03: quiet recovery failed"),
    }
    kani::cover!(true, "end reached");
    std::mem::forget(r);
    std::mem::forget(dev);
} }

/// D5c: two blobs in one block; the second blob's sequences regress below the first blob's (a stale generation of the
/// block behind a newer one): the scan keeps the first blob only.
verif_harness_ns! { #[kani::stub(crate::serde::Checksummer::checksum64, stubs::checksum64_head)] c03_d5c_stale_second_blob, 6, {
    let (dev, block) = mk_block(None);
    let h: [u64; 2] = kani::any();
    let s_new: u64 = kani::any();
    let s_old: u64 = kani::any();
    kani::assume(s_new >= 1 && s_old >= 1);
    write_index(&dev, 0, 1, h, [s_new, 0]); // blob 0: index page 0, entry page 1
    write_index(&dev, 2, 1, [h[1], 0], [s_old, 0]); // blob 1: index page 2, entry page 3
    let r = block_on(BlockRecoverRunner::run(RecoverMode::Quiet, block, INDEX), 4).unwrap();
    assert!(r.len() >= 1 && r[0].hash == h[0] && r[0].addr.sequence == s_new && r[0].addr.offset == INDEX as u32);
    if s_old < s_new {
        assert!(r.len() == 1, "C03-D5: entries of an older generation behind a newer blob were recovered");
    } else {
        assert!(r.len() == 2 && r[1].hash == h[1] && r[1].addr.offset == (2 * PAGE + INDEX) as u32, "C07-W2: second blob not recovered at its written address");
    }
    kani::cover!(s_old < s_new, "stale generation");
    kani::cover!(s_old >= s_new, "continuing generation");
    kani::cover!(true, "end reached");
    std::mem::forget(r);
    std::mem::forget(dev);
} }

// native replay of counterexamples: bin/check writes the unit test Kani generated (`--concrete-playback=print`) into the
// included file and runs `cargo kani playback`; the file is empty otherwise.
#[allow(unused_imports, dead_code)]
mod playback {
    use super::*;
    include!("/verif/harness/playback/foyer-storage/engine__block__recover__verif_kani.rs");
}
