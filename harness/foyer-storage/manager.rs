// cfg(kani) child of foyer-storage/src/engine/block/manager.rs: constructor for `Block` over a harness partition / io
// engine (the in-tree `new_for_test` is cfg(test) only; `BlockInner` is private).
#![allow(dead_code)]
use super::*;

impl Block {
    pub(crate) fn verif_new(id: BlockId, partition: Arc<dyn Partition>, io_engine: Arc<dyn IoEngine>) -> Self {
        Self {
            inner: Arc::new(BlockInner {
                id,
                partition,
                io_engine,
                statistics: Arc::<BlockStatistics>::default(),
            }),
        }
    }
}
