// Kani harnesses for foyer-storage/src/serde.rs — C03-D2 (deserializer on arbitrary bytes), C08-R3 (framing).
#![allow(dead_code, unused_imports)]
use super::*;

#[allow(dead_code, unused)]
mod stubs {
    include!("/verif/harness/common/stubs_storage.rs");
}
include!("/verif/harness/common/macros_storage.rs");

/// C03-D2: arbitrary buffer, arbitrary recorded lengths, arbitrary expected checksum.
/// no panic / no out-of-bounds slice; Ok => lengths in bounds, stored checksum == checksum64(payload),
/// key/value are the decodings of exactly the recorded regions; checksum mismatch => Err(ChecksumMismatch).
macro_rules! d2 {
    ($name:ident, $len:expr) => {
        verif_harness! { $name, 34, {
            const L: usize = $len;
            let buf: [u8; L] = kani::any();
            let key_len: u32 = kani::any();
            let value_len: u32 = kani::any();
            let with_checksum: bool = kani::any();
            let c: u64 = kani::any();
            let (kl, vl) = (key_len as usize, value_len as usize);
            let res = EntryDeserializer::deserialize::<u64, u64>(&buf[..], kl, vl, Compression::None, if with_checksum { Some(c) } else { None });
            match res {
                Ok((k, v)) => {
                    assert!(kl + vl <= L, "C03-D2: accepted although recorded lengths exceed the buffer");
                    if with_checksum {
                        assert!(c == stubs::checksum64_fold(&buf[..kl + vl]), "C03-D2: accepted although the checksum does not match the payload");
                    }
                    assert!(vl >= 8 && kl >= 8, "C03-D2: fixed-width value/key decoded from a shorter region");
                    let mut vb = [0u8; 8];
                    vb.copy_from_slice(&buf[..8]);
                    let mut kb = [0u8; 8];
                    kb.copy_from_slice(&buf[vl..vl + 8]);
                    assert!(v == u64::from_le_bytes(vb), "C03-D2: value is not the decoding of the recorded value region");
                    assert!(k == u64::from_le_bytes(kb), "C03-D2: key is not the decoding of the recorded key region");
                    kani::cover!(true, "opt: accepted");
                }
                Err(e) => {
                    if kl + vl <= L && with_checksum && c != stubs::checksum64_fold(&buf[..kl + vl]) {
                        assert!(e.kind() == ErrorKind::ChecksumMismatch, "C03-D2: checksum mismatch reported as another error");
                        kani::cover!(true, "opt: checksum mismatch");
                    }
                    if kl + vl > L {
                        assert!(e.kind() == ErrorKind::OutOfRange);
                        kani::cover!(true, "out of range");
                    }
                    std::mem::forget(e);
                }
            }
            kani::cover!(true, "end reached");
        } }
    };
}
d2!(c03_d2_deser_len0, 0);
d2!(c03_d2_deser_len8, 8);
d2!(c03_d2_deser_len16, 16);
d2!(c03_d2_deser_len24, 24);

/// C08-R3 (serializer part): value first, then key; KvInfo lengths equal the bytes written; a too-small destination
/// is a size-limit error, never a partial success.
macro_rules! r3ser {
    ($name:ident, $vlen:expr) => {
        verif_harness! { $name, 28, {
            const VL: usize = $vlen;
            let key: u64 = kani::any();
            let content: [u8; VL] = kani::any();
            let value: Vec<u8> = content.to_vec();
            let mut out = [0u8; 40];
            let n: usize = kani::any();
            kani::assume(n <= 40);
            let res = EntrySerializer::serialize(&key, &value, Compression::None, &mut out[..n]);
            match res {
                Ok(info) => {
                    assert!(info.value_len == 8 + VL, "C08-R3: recorded value length != bytes written");
                    assert!(info.key_len == 8, "C08-R3: recorded key length != bytes written");
                    assert!(n >= 16 + VL, "C08-R3: success although the destination is too small");
                    // layout: value (len prefix LE + bytes), then key
                    let mut lb = [0u8; 8];
                    lb.copy_from_slice(&out[..8]);
                    assert!(u64::from_le_bytes(lb) as usize == VL);
                    let mut i = 0;
                    while i < VL { assert!(out[8 + i] == content[i]); i += 1; }
                    let mut kb = [0u8; 8];
                    kb.copy_from_slice(&out[8 + VL..16 + VL]);
                    assert!(u64::from_le_bytes(kb) == key);
                    // and the real deserializer returns the originals
                    let c = stubs::checksum64_fold(&out[..16 + VL]);
                    let (k2, v2) = EntryDeserializer::deserialize::<u64, Vec<u8>>(&out[..n], info.key_len, info.value_len, Compression::None, Some(c)).unwrap();
                    assert!(k2 == key && v2.len() == VL);
                    let mut i = 0;
                    while i < VL { assert!(v2[i] == content[i], "C08-R3: value changed in framing round trip"); i += 1; }
                    kani::cover!(true, "accepted");
                    std::mem::forget(v2);
                }
                Err(e) => {
                    assert!(n < 16 + VL, "C08-R3: rejected although the destination is large enough");
                    assert!(e.kind() == ErrorKind::BufferSizeLimit, "C08-R3: short destination is not a size-limit error");
                    kani::cover!(true, "rejected");
                    std::mem::forget(e);
                }
            }
            assert!(EntrySerializer::estimated_size(&key, &value) == 16 + VL);
            kani::cover!(true, "end reached");
            std::mem::forget(value);
        } }
    };
}
r3ser!(c08_r3_serialize_v0, 0);
r3ser!(c08_r3_serialize_v1, 1);
r3ser!(c08_r3_serialize_v3, 3);
r3ser!(c08_r3_serialize_v8, 8);

// native replay of counterexamples: bin/check writes the unit test Kani generated (`--concrete-playback=print`) into the
// included file and runs `cargo kani playback`; the file is empty otherwise.
#[allow(unused_imports, dead_code)]
mod playback {
    use super::*;
    include!("/verif/harness/playback/foyer-storage/serde__verif_kani.rs");
}
