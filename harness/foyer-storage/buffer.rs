// Kani harnesses for foyer-storage/src/engine/block/buffer.rs — C07 (W1 splitter step from an arbitrary valid state,
// W2 writer/reader/scanner agreement, W3 Buffer bookkeeping, W4 index-full boundary), C03-D3 (BlobIndexReader on damaged /
// arbitrary pages).
#![allow(dead_code, unused_imports, unused_variables)]
use super::*;
use crate::io::bytes::IoB;

#[allow(dead_code, unused)]
mod stubs {
    include!("/verif/harness/common/stubs_storage.rs");
    /// Cheap checksum stand-in for harnesses whose subject is layout, not integrity: depends on the length, the blob
    /// index `count` field (bytes 0..4 of the checksummed region) and the first index slot's 24 bytes.  Deterministic,
    /// so writer and reader agree; a 4 KiB fold would be a 4088-iteration loop per seal/read.
    pub fn checksum64_head(buf: &[u8]) -> u64 {
        // loop-free: four 8-byte words at fixed positions (count field + first slot live in bytes 0..28)
        let mut acc: u64 = 0x9E37_79B9_7F4A_7C15 ^ (buf.len() as u64);
        if buf.len() >= 32 {
            let w = |i: usize| u64::from_le_bytes([buf[i], buf[i + 1], buf[i + 2], buf[i + 3], buf[i + 4], buf[i + 5], buf[i + 6], buf[i + 7]]);
            acc = acc.rotate_left(5) ^ w(0);
            acc = acc.rotate_left(7) ^ w(8);
            acc = acc.rotate_left(11) ^ w(16);
            acc = acc.rotate_left(13) ^ w(24);
        }
        acc
    }
}
include!("/verif/harness/common/macros_storage.rs");

impl BlobIndex {
    /// Stub target for `BlobIndex::seal` in the PLACEMENT-only W1 harnesses (pre-states with earlier entries, where the
    /// content of the sealed page is not examined): returns a fresh page instead of checksumming and copying the 4 KiB
    /// index buffer (the copy alone makes CBMC's array post-processing need 20-60 GB).  The harnesses that examine the
    /// sealed page (pre-states without earlier entries, D3, W4) run the shipped `seal`.
    pub fn verif_seal_nocopy(&mut self) -> IoSliceMut {
        IoSliceMut::new(INDEX)
    }
}

const INDEX: usize = PAGE; // 4 KiB
const CAP: usize = (INDEX - BlobIndex::INDEX_OFFSET) / 24; // 170
const MAX_PAGES: usize = 3; // per-entry maximum (pages); block engine: max_entry_size = block_size - blob_index_size for a 4-page block
const MAX_ENTRY: usize = MAX_PAGES * PAGE;

fn pages(max: usize) -> usize {
    let p: usize = kani::any();
    kani::assume(p <= max);
    p * PAGE
}

/// Representation invariant of the split context between batches (asserted on `SplitCtx::new` and on every post-state,
/// so one step from an arbitrary state satisfying it covers batch sequences of any length):
///  * offsets are page multiples, the open blob index is not full;
///  * no entry in the open blob  <=>  part offset == index size; then the blob start may be anywhere up to the block end
///    (a blob that ended exactly at the block end leaves `blob_off + index_size > block_size`; the next entry moves on);
///  * otherwise the open blob (index page + data so far) lies inside the block and holds at most one entry per data page.
fn inv(ctx: &SplitCtx, block: usize) -> bool {
    #[allow(non_snake_case)]
    let BLOCK = block;
    let b = ctx.current_blob_block_offset;
    let p = ctx.current_part_blob_offset;
    let c = ctx.current_blob_index.count;
    if b % PAGE != 0 || p % PAGE != 0 || ctx.block_size != BLOCK || ctx.blob_index_size != INDEX {
        return false;
    }
    if c >= CAP {
        return false;
    }
    if c == 0 {
        p == INDEX && b <= BLOCK
    } else {
        p >= INDEX + PAGE && b + p <= BLOCK && c <= (p - INDEX) / PAGE
    }
}

/// The STRUCTURE of a W1 case is literal: block size, blob offset, part offset and index count of the pre-state, and the
/// number of pages of every entry of the batch.  It fixes every offset into the 4 KiB index page (`12 + count * 24`) and
/// every split decision; with any of them symbolic CBMC's byte-update encoding of the index page needs 30-60 GB.
/// SYMBOLIC inside a case: each entry's length within its last page (so `len` ranges over (pages-1)*4096+1 ..= pages*4096),
/// its hash and its sequence.  The harnesses enumerate all structures of a 4-page block and the index-full boundary
/// structures of a 256-page block (see the lists below); `inv` is asserted on every pre-state and every post-state.
fn mk_ctx(block_pages: usize, b_pages: usize, p_pages: usize, count: usize) -> SplitCtx {
    let ctx = SplitCtx {
        current_part_blob_offset: p_pages * PAGE,
        current_blob_index: BlobIndex { bytes: IoSliceMut::new(INDEX), count },
        current_blob_block_offset: b_pages * PAGE,
        block_size: block_pages * PAGE,
        blob_index_size: INDEX,
    };
    assert!(inv(&ctx, block_pages * PAGE), "harness: listed pre-state violates the invariant");
    ctx
}

/// W1 + W2 for one structure.
fn w1<const N: usize>(bp: usize, b_pages: usize, p_pages: usize, c: usize, entry_pages: [usize; N]) {
    #[allow(non_snake_case)]
    let BLOCK = bp * PAGE;
    #[allow(non_snake_case)]
    let C = c;
    let mut ctx = mk_ctx(bp, b_pages, p_pages, c);
    let pre_b = ctx.current_blob_block_offset;
    let pre_p = ctx.current_part_blob_offset;
    let pre_c = ctx.current_blob_index.count;

    // the batch as `Buffer` produces it: entries back to back, each padded to a page (W3 decides that)
    let mut infos: Vec<BufferEntryInfo> = Vec::with_capacity(N);
    let mut lens = [0usize; N];
    let mut offs = [0usize; N];
    let mut hs = [0u64; N];
    let mut sq = [0u64; N];
    let mut total = 0usize;
    let mut i = 0;
    while i < N {
        let tail: usize = kani::any();
        kani::assume(tail >= 1 && tail <= PAGE);
        let len = (entry_pages[i] - 1) * PAGE + tail;
        lens[i] = len;
        offs[i] = total;
        // hash / sequence are literals: symbolic CONTENT inside the 4 KiB index page (written by the splitter, checksummed and
        // copied by `seal`) costs 17-38 GB in CBMC's array post-processing; the length - the only field the placement
        // arithmetic depends on - stays symbolic
        hs[i] = 100 + i as u64;
        sq[i] = 1000 + i as u64;
        infos.push(BufferEntryInfo { hash: hs[i], sequence: sq[i], offset: total, len });
        total += entry_pages[i] * PAGE;
        i += 1;
    }
    let bytes = IoSliceMut::new(N * MAX_ENTRY).into_io_slice();
    let base = bytes.as_raw_parts().0 as usize;

    let batch = Splitter::split(&mut ctx, bytes.clone(), infos);

    // ---- oracle ----
    // (loops have concrete trip counts N+1 / N / N with guards: a batch of N entries has at most N non-empty parts, and at
    //  most one leading block without parts - when the first entry does not fit the current block)
    assert!(inv(&ctx, BLOCK), "C07-W1: split context invariant broken after a batch");
    assert!(batch.blocks.len() >= 1 && batch.blocks.len() <= N + 1, "C07-W1: more blocks than entries + 1");
    let mut seen = 0usize; // entries seen so far, must come out in input order
    let mut cur = pre_b + pre_p; // in the first block everything below this is owned by earlier batches
    let mut open_blob = pre_b; // start of the blob the walk is in
    let mut open_count = pre_c; // entries of that blob written by earlier batches + this walk
    let mut last_part: Option<&BlobPart> = None;
    let mut bi = 0;
    while bi < N + 1 {
        if bi < batch.blocks.len() {
            if bi > 0 {
                cur = 0;
                open_blob = usize::MAX;
                open_count = 0;
            }
            let parts = &batch.blocks[bi].blob_parts;
            assert!(parts.len() <= N, "C07-W1: more blob parts than entries");
            assert!(bi == 0 || !parts.is_empty(), "C07-W1: a block without data emitted after the first one");
            let mut pi = 0;
            while pi < N {
                if pi < parts.len() {
                    let part = &parts[pi];
                    let data_at = part.blob_block_offset + part.part_blob_offset;
                    assert!(part.blob_block_offset % PAGE == 0 && part.part_blob_offset % PAGE == 0 && part.data.len() % PAGE == 0, "C07-W1: unaligned blob part");
                    assert!(part.part_blob_offset >= INDEX, "C07-W1: data part overlaps its own blob index page");
                    assert!(data_at + part.data.len() <= BLOCK, "C07-W1: blob part written beyond the end of the block");
                    if part.blob_block_offset == open_blob {
                        // continuation of the open blob: data goes right behind what the blob already holds
                        assert!(data_at == cur, "C07-W1: continued blob part does not start at the end of the previous part");
                    } else {
                        // a new blob: its index page must not overlap anything written before in this block
                        assert!(part.blob_block_offset >= cur, "C07-W1: new blob index page overlaps earlier data in the block");
                        assert!(part.part_blob_offset == INDEX, "C07-W1: first part of a blob does not start right behind the index page");
                        open_blob = part.blob_block_offset;
                        open_count = 0;
                    }
                    assert!(!part.indices.is_empty() && part.indices.len() <= N, "C07-W1: empty / oversized blob part emitted");
                    // entries of the part: contiguous, in input order, lengths / hashes / sequences preserved
                    let mut at = data_at;
                    let mut ii = 0;
                    while ii < N {
                        if ii < part.indices.len() {
                            let ix = &part.indices[ii];
                            assert!(seen < N, "C07-W1: more entries emitted than submitted (duplicate)");
                            assert!(ix.hash == hs[seen] && ix.sequence == sq[seen] && ix.len as usize == lens[seen], "C07-W1: entry order / identity changed by the splitter");
                            // address the flusher records: blob offset + index offset (flusher.rs: `blob_offset as u32 + index.offset`)
                            let addr = part.blob_block_offset + ix.offset as usize;
                            assert!(addr == at, "C07-W1: recorded entry address is not where its bytes are written");
                            assert!(addr + bits::align_up(PAGE, lens[seen]) <= BLOCK, "C07-W1: entry crosses the block end");
                            // the bytes written there are the entry's bytes of the batch buffer
                            let src = part.data.as_raw_parts().0 as usize + (at - data_at);
                            assert!(src == base + offs[seen], "C07-W1: entry address points at another entry's bytes");
                            // the blob index page carries the entry in the slot the reader will look at
                            let slot = BlobIndex::INDEX_OFFSET + (open_count + ii) * 24;
                            assert!(slot + 24 <= INDEX, "C07-W1: more entries in a blob than its index page holds");
                            // page CONTENT is read back only for pre-states without earlier entries (slots at the head of the
                            // page); reading slots deep inside the sealed 4 KiB copy does not come back from the solver
                            if C == 0 {
                                assert!(BlobEntryIndex::read(&part.index[slot..slot + 24]) == *ix, "C07-W2: index page slot differs from the recorded entry");
                            }
                            at += bits::align_up(PAGE, lens[seen]);
                            seen += 1;
                        }
                        ii += 1;
                    }
                    assert!(at == data_at + part.data.len(), "C07-W1: data part length differs from its entries");
                    open_count += part.indices.len();
                    assert!(open_count <= CAP, "C07-W1: more entries in a blob than its index page holds");
                    // count field of the sealed page == entries of the blob so far
                    if C == 0 {
                        let cnt = u32::from_be_bytes([part.index[8], part.index[9], part.index[10], part.index[11]]) as usize;
                        assert!(cnt == open_count, "C07-W2: sealed index page announces a different number of entries than the blob holds");
                    }
                    cur = at;
                    last_part = Some(part);
                }
                pi += 1;
            }
        }
        bi += 1;
    }
    assert!(seen == N, "C07-W1: an entry was lost by the splitter");
    // ---- W2: the last sealed index page through the real reader (only where the entry count is small: the reader's loop
    //      runs `count` times); scanner step (scanner.rs: last.offset + last.aligned()) lands at the end of the blob ----
    if let Some(part) = last_part {
        if C == 0 && open_count <= 4 {
            match BlobIndexReader::read(&part.index) {
                None => panic!("C07-W2: index page written by the splitter is rejected by the reader"),
                Some(v) => {
                    assert!(v.len() == open_count, "C07-W2: reader sees a different number of entries than the blob holds");
                    let last = &v[v.len() - 1];
                    assert!(*last == part.indices[part.indices.len() - 1], "C07-W2: reader returns a different entry than the splitter recorded");
                    assert!(part.blob_block_offset + last.offset as usize + last.aligned() == cur, "C07-W2: scanner step does not land at the end of the blob");
                    kani::cover!(true, "opt: reader agreed");
                    std::mem::forget(v);
                }
            }
        }
    }
    // where the next batch continues is where the walk ended (same blob) or a fresh blob at/after it
    if ctx.current_blob_index.count > 0 {
        assert!(ctx.current_blob_block_offset == open_blob && ctx.current_blob_block_offset + ctx.current_part_blob_offset == cur && ctx.current_blob_index.count == open_count,
            "C07-W1: context does not continue the open blob where the batch ended");
    } else {
        assert!(ctx.current_blob_block_offset >= cur, "C07-W1: next blob would overlap the batch just written");
    }
    kani::cover!(batch.blocks.len() > 1, "opt: batch spans two blocks");
    kani::cover!(ctx.current_blob_index.count == 0 && pre_c + N >= CAP, "opt: blob closed because its index page is full");
    kani::cover!(batch.blocks[0].blob_parts.len() > 0 && batch.blocks[0].blob_parts[0].blob_block_offset == pre_b && pre_c > 0, "opt: batch continues an open blob");
    kani::cover!(true, "end reached");
    std::mem::forget(batch);
    std::mem::forget(ctx);
    std::mem::forget(bytes);
}

macro_rules! w1h {
    ($name:ident, $body:block) => {
        verif_harness_ns! { #[kani::stub(crate::serde::Checksummer::checksum64, stubs::checksum64_head)] $name, 6, $body }
    };
}
/// placement-only variant (pre-states with earlier entries): `seal` stubbed, see `verif_seal_nocopy`
macro_rules! w1p {
    ($name:ident, $body:block) => {
        verif_harness_ns! {
            #[kani::stub(crate::serde::Checksummer::checksum64, stubs::checksum64_head)]
            #[kani::stub(crate::engine::block::buffer::BlobIndex::seal, crate::engine::block::buffer::BlobIndex::verif_seal_nocopy)]
            $name, 10, $body
        }
    };
}
// ---- 4-page block (16 KiB) ----
// pre-states without earlier entries (page content examined): blob at page 0..4, batches of 1 and 2 entries
w1h!(c07_w1_b4_b0_n1p1, { w1::<1>(4, 0, 1, 0, [1]); });
w1h!(c07_w1_b4_b0_n1p3, { w1::<1>(4, 0, 1, 0, [3]); });
w1h!(c07_w1_b4_b1_n1p3, { w1::<1>(4, 1, 1, 0, [3]); });
w1h!(c07_w1_b4_b2_n1p2, { w1::<1>(4, 2, 1, 0, [2]); });
w1h!(c07_w1_b4_b3_n1p1, { w1::<1>(4, 3, 1, 0, [1]); });
w1h!(c07_w1_b4_b4_n1p1, { w1::<1>(4, 4, 1, 0, [1]); });
w1h!(c07_w1_b4_b0_n2p12, { w1::<2>(4, 0, 1, 0, [1, 2]); });
w1h!(c07_w1_b4_b0_n2p22, { w1::<2>(4, 0, 1, 0, [2, 2]); });
w1h!(c07_w1_b4_b2_n2p11, { w1::<2>(4, 2, 1, 0, [1, 1]); });
w1h!(c07_w1_b4_b0_n3p111, { w1::<3>(4, 0, 1, 0, [1, 1, 1]); });
w1h!(c07_w1_b4_b0_n3p312, { w1::<3>(4, 0, 1, 0, [3, 1, 2]); });
// pre-states with earlier entries (placement only)
w1p!(c07_w1_b4_b0p2c1_n1p1, { w1::<1>(4, 0, 2, 1, [1]); });
w1p!(c07_w1_b4_b0p2c1_n1p3, { w1::<1>(4, 0, 2, 1, [3]); });
w1p!(c07_w1_b4_b0p3c2_n1p1, { w1::<1>(4, 0, 3, 2, [1]); });
w1p!(c07_w1_b4_b0p4c3_n1p1, { w1::<1>(4, 0, 4, 3, [1]); });
w1p!(c07_w1_b4_b1p2c1_n2p11, { w1::<2>(4, 1, 2, 1, [1, 1]); });
w1p!(c07_w1_b4_b1p3c2_n2p12, { w1::<2>(4, 1, 3, 2, [1, 2]); });
w1p!(c07_w1_b4_b2p2c1_n1p2, { w1::<1>(4, 2, 2, 1, [2]); });
// ---- 256-page block (1 MiB; offsets only - nothing of that size is allocated): index-full boundary (placement only) ----
// continued blob (part offset > index size) whose index fills exactly with the last entry of the batch / in the middle of it
w1p!(c07_w1_b256_c169_n1, { w1::<1>(256, 0, 170, 169, [1]); });
w1p!(c07_w1_b256_c169_n1_b3, { w1::<1>(256, 3, 180, 169, [2]); });
w1p!(c07_w1_b256_c168_n2, { w1::<2>(256, 0, 169, 168, [1, 1]); });
w1p!(c07_w1_b256_c169_n2, { w1::<2>(256, 0, 170, 169, [1, 3]); });
w1p!(c07_w1_b256_c168_n3, { w1::<3>(256, 0, 169, 168, [1, 1, 1]); });
w1p!(c07_w1_b256_c100_near_end, { w1::<2>(256, 0, 255, 100, [1, 2]); });
w1h!(c07_w1_b256_fresh_n2, { w1::<2>(256, 0, 1, 0, [1, 2]); });

// the invariant holds initially
verif_harness_ns! { #[kani::stub(crate::serde::Checksummer::checksum64, stubs::checksum64_head)] c07_w1_inv_init, 3, {
    let ctx = SplitCtx::new(4 * PAGE, INDEX);
    assert!(inv(&ctx, 4 * PAGE), "C07-W1: initial split context violates the invariant");
    kani::cover!(true, "end reached");
    std::mem::forget(ctx);
} }

/// W4: the blob index becomes full exactly with this batch (count = CAP-1 / CAP-2 before it): the blob must be closed,
/// the next entry opens a new blob behind it, and the context never stays full.
fn w4(pre_count: usize) {
    // one-page entries; open blob at block start holding `pre_count` entries is impossible inside a 4-page block
    // (one entry per page), so this boundary is decided on a block large enough to hold them: not representable with
    // BLOCK = 16 KiB.  Instead: the *arithmetic* of is_full/capacity over every count.
    let mut bi = BlobIndex { bytes: IoSliceMut::new(INDEX), count: pre_count };
    assert!(bi.capacity() == CAP);
    assert!(bi.is_full() == (pre_count >= CAP));
    if !bi.is_full() {
        let ix = BlobEntryIndex { hash: kani::any(), sequence: kani::any(), offset: kani::any(), len: kani::any() };
        bi.write(&ix);
        assert!(bi.count == pre_count + 1);
        let start = BlobIndex::INDEX_OFFSET + pre_count * 24;
        assert!(start + 24 <= INDEX, "C07-W4: index slot beyond the index page");
        let back = BlobEntryIndex::read(&bi.bytes[start..start + 24]);
        assert!(back == ix, "C07-W4: index slot does not read back");
    }
    kani::cover!(true, "end reached");
    std::mem::forget(bi);
}
verif_harness_ns! { #[kani::stub(crate::serde::Checksummer::checksum64, stubs::checksum64_head)] c07_w4_index_slots, 3, {
    // boundary counts are concrete (a symbolic count costs 10 min in the slot-address multiplication); slot contents symbolic
    w4(0);
    w4(1);
    w4(CAP - 2);
    w4(CAP - 1);
    w4(CAP);
} }

/// W3: `Buffer::push_slice` bookkeeping for a sequence of 3 pushes of symbolic lengths into a 4-page buffer:
/// offsets are the prefix sums of the page-aligned lengths, `written` stays page aligned and inside the buffer, a slice
/// that does not fit or exceeds max_entry_size is refused as a whole (no bookkeeping change).
verif_harness! { c07_w3_push_slice, 5, {
    const BUF: usize = 4 * PAGE;
    let max_entry: usize = pages(4);
    kani::assume(max_entry >= PAGE);
    let mut buffer = Buffer { bytes: IoSliceMut::new(BUF), written: 0, entry_infos: Vec::with_capacity(3), max_entry_size: max_entry,
        metrics: Arc::new(Metrics::noop()) };
    let src = [0u8; 3 * PAGE];
    let mut expect_written = 0usize;
    let mut accepted = 0usize;
    let mut i = 0;
    while i < 3 {
        let len: usize = kani::any();
        kani::assume(len >= 1 && len <= 3 * PAGE);
        let aligned = bits::align_up(PAGE, len);
        let fits = aligned <= max_entry && expect_written + aligned <= BUF;
        let ok = buffer.push_slice(&src[..len], 7 + i as u64, 70 + i as u64);
        assert!(ok == fits, "C07-W3/C08: push_slice accepted an entry that does not fit (or refused one that does)");
        if ok {
            let info = &buffer.entry_infos[accepted];
            assert!(info.offset == expect_written && info.len == len && info.hash == 7 + i as u64 && info.sequence == 70 + i as u64, "C07-W3: entry info differs from what was pushed");
            expect_written += aligned;
            accepted += 1;
        }
        assert!(buffer.entry_infos.len() == accepted && buffer.written == expect_written, "C07-W3: bookkeeping changed by a refused entry / wrong after an accepted one");
        assert!(buffer.written % PAGE == 0 && buffer.written <= BUF);
        i += 1;
    }
    kani::cover!(accepted == 3, "opt: three accepted");
    kani::cover!(accepted < 3, "opt: one refused");
    kani::cover!(true, "end reached");
    std::mem::forget(buffer);
} }

// ---------------------------------------------------------------------------------------------------------------------
// C03-D3: BlobIndexReader
// ---------------------------------------------------------------------------------------------------------------------

/// D3a: a page sealed by the real writer with n entries, then ONE symbolic byte anywhere in the page replaced by a
/// symbolic different value.  The reader returns None, or (only possible if the stand-in checksum collides, which real
/// xxhash64 is assumed not to do — the harness splits on that) — never a list that differs from what was written while
/// the checksum comparison says "mismatch".
fn d3a(n: usize) {
    let mut bi = BlobIndex::new(IoSliceMut::new(INDEX));
    let mut written: [BlobEntryIndex; 3] = std::array::from_fn(|_| BlobEntryIndex { hash: 0, sequence: 0, offset: 0, len: 0 });
    let mut i = 0;
    while i < n {
        let ix = BlobEntryIndex { hash: kani::any(), sequence: kani::any(), offset: kani::any(), len: kani::any() };
        bi.write(&ix);
        written[i] = ix;
        i += 1;
    }
    let mut page = bi.seal();
    // undamaged: exactly the entries
    let clean = BlobIndexReader::read(&page).expect("C03-D3: reader rejects a page the writer sealed");
    assert!(clean.len() == n);
    let mut i = 0;
    while i < n {
        assert!(clean[i] == written[i], "C03-D3/C07-W2: reader returns an entry that differs from the written one");
        i += 1;
    }
    std::mem::forget(clean);
    // one damaged byte inside the region the stand-in checksum covers or in the stored checksum itself
    let pos: usize = kani::any();
    kani::assume(pos < 8 + 32);
    let val: u8 = kani::any();
    // the symbolic index goes into a 40-byte stack array (cheap), which is then copied over the head of the page
    let mut head = [0u8; 40];
    head.copy_from_slice(&page[..40]);
    kani::assume(val != head[pos]);
    head[pos] = val;
    page[..40].copy_from_slice(&head);
    let stored = u64::from_be_bytes([page[0], page[1], page[2], page[3], page[4], page[5], page[6], page[7]]);
    let mismatch = stubs::checksum64_head(&page[8..]) != stored;
    let r = BlobIndexReader::read(&page);
    if mismatch {
        assert!(r.is_none(), "C03-D3: damaged blob index page accepted although its checksum does not match");
        kani::cover!(true, "damaged page rejected");
    }
    std::mem::forget(r);
    kani::cover!(true, "end reached");
    std::mem::forget(page);
    std::mem::forget(bi);
}
verif_harness_ns! { #[kani::stub(crate::serde::Checksummer::checksum64, stubs::checksum64_head)] c03_d3a_index_flip_0, 8, { d3a(0); } }
verif_harness_ns! { #[kani::stub(crate::serde::Checksummer::checksum64, stubs::checksum64_head)] c03_d3a_index_flip_2, 8, { d3a(2); } }

/// D3b: an arbitrary page whose checksum does not match is rejected without panicking (no slice computed from `count`).
verif_harness_ns! { #[kani::stub(crate::serde::Checksummer::checksum64, stubs::checksum64_head)] c03_d3b_index_arbitrary, 8, {
    let mut page = IoSliceMut::new(INDEX);
    let head: [u8; 40] = kani::any();
    page[..40].copy_from_slice(&head);
    let stored = u64::from_be_bytes([page[0], page[1], page[2], page[3], page[4], page[5], page[6], page[7]]);
    kani::assume(stubs::checksum64_head(&page[8..]) != stored);
    let r = BlobIndexReader::read(&page);
    assert!(r.is_none(), "C03-D3: arbitrary page with a wrong checksum accepted");
    kani::cover!(true, "end reached");
    std::mem::forget(page);
} }

// ---- W1-lite harness list: (block pages; blob page, part page, count) x page counts of the batch ----
macro_rules! lite1 {
    ($name:ident, $bp:expr, $b:expr, $p:expr, $c:expr) => {
        w1p!($name, { w1_lite::<1>($bp, $b, $p, $c, [1]); w1_lite::<1>($bp, $b, $p, $c, [2]); w1_lite::<1>($bp, $b, $p, $c, [3]); });
    };
}
// every pre-state structure of a 4-page block the invariant allows, batch of one entry of 1, 2, 3 pages
lite1!(c07_lite_b4_s0_1_0, 4, 0, 1, 0);
lite1!(c07_lite_b4_s1_1_0, 4, 1, 1, 0);
lite1!(c07_lite_b4_s2_1_0, 4, 2, 1, 0);
lite1!(c07_lite_b4_s3_1_0, 4, 3, 1, 0);
lite1!(c07_lite_b4_s4_1_0, 4, 4, 1, 0);
lite1!(c07_lite_b4_s0_2_1, 4, 0, 2, 1);
lite1!(c07_lite_b4_s0_3_1, 4, 0, 3, 1);
lite1!(c07_lite_b4_s0_3_2, 4, 0, 3, 2);
lite1!(c07_lite_b4_s0_4_1, 4, 0, 4, 1);
lite1!(c07_lite_b4_s0_4_3, 4, 0, 4, 3);
lite1!(c07_lite_b4_s1_2_1, 4, 1, 2, 1);
lite1!(c07_lite_b4_s1_3_2, 4, 1, 3, 2);
lite1!(c07_lite_b4_s2_2_1, 4, 2, 2, 1);
// batches of two and three entries
w1p!(c07_lite_b4_n2_fresh_11, { w1_lite::<2>(4, 0, 1, 0, [1, 1]); });
w1p!(c07_lite_b4_n2_fresh_12, { w1_lite::<2>(4, 0, 1, 0, [1, 2]); });
w1p!(c07_lite_b4_n2_fresh_22, { w1_lite::<2>(4, 0, 1, 0, [2, 2]); });
w1p!(c07_lite_b4_n2_fresh_31, { w1_lite::<2>(4, 0, 1, 0, [3, 1]); });
w1p!(c07_lite_b4_n2_mid_11, { w1_lite::<2>(4, 2, 1, 0, [1, 1]); });
w1p!(c07_lite_b4_n2_cont_11, { w1_lite::<2>(4, 0, 2, 1, [1, 1]); });
w1p!(c07_lite_b4_n2_cont_21, { w1_lite::<2>(4, 1, 2, 1, [2, 1]); });
w1p!(c07_lite_b4_n3_fresh_111, { w1_lite::<3>(4, 0, 1, 0, [1, 1, 1]); });
w1p!(c07_lite_b4_n3_fresh_121, { w1_lite::<3>(4, 0, 1, 0, [1, 2, 1]); });
// 256-page block: index-full boundary - at the end of a batch (continued blob), in the middle of a batch, and not reached
w1p!(c07_lite_b256_c169_n1, { w1_lite::<1>(256, 0, 170, 169, [1]); w1_lite::<1>(256, 3, 180, 169, [2]); });
w1p!(c07_lite_b256_c168_n2, { w1_lite::<2>(256, 0, 169, 168, [1, 1]); });
w1p!(c07_lite_b256_c169_n2, { w1_lite::<2>(256, 0, 170, 169, [1, 3]); });
w1p!(c07_lite_b256_c168_n3, { w1_lite::<3>(256, 0, 169, 168, [1, 1, 1]); });
w1p!(c07_lite_b256_c100_n2, { w1_lite::<2>(256, 0, 101, 100, [1, 2]); });
w1p!(c07_lite_b256_near_end, { w1_lite::<1>(256, 0, 254, 100, [2]); w1_lite::<1>(256, 0, 254, 100, [3]); });


// native replay of counterexamples: bin/check writes the unit test Kani generated (`--concrete-playback=print`) into the
// included file and runs `cargo kani playback`; the file is empty otherwise.
#[allow(unused_imports, dead_code)]
mod playback {
    use super::*;
    include!("/verif/harness/playback/foyer-storage/engine__block__buffer__verif_kani.rs");
}

/// W1-lite: the split context after one batch, from a literal pre-state structure, with symbolic in-page lengths:
/// invariant preserved and the context's (blob offset, part offset, count) equal to the values the layout rules imply -
/// computed here from the literals by the straightforward rule "entries are placed back to back behind the open blob; a
/// blob ends when its index is full or the block cannot take the next entry; a new block starts at 0".
fn w1_lite<const N: usize>(bp: usize, b_pages: usize, p_pages: usize, c: usize, entry_pages: [usize; N]) {
    w1_g::<N, false>(bp, b_pages, p_pages, c, entry_pages)
}
fn w1_g<const N: usize, const GEOM: bool>(bp: usize, b_pages: usize, p_pages: usize, c: usize, entry_pages: [usize; N]) {
    let mut ctx = mk_ctx(bp, b_pages, p_pages, c);
    let mut infos: Vec<BufferEntryInfo> = Vec::with_capacity(N);
    let mut total = 0usize;
    // reference layout over page numbers
    let (mut rb, mut rp, mut rc) = (b_pages, p_pages, c);
    let mut rblock = 0usize;
    let mut exp_block = [0usize; N];
    let mut exp_addr = [0usize; N];
    let mut i = 0;
    while i < N {
        let tail: usize = kani::any();
        kani::assume(tail >= 1 && tail <= PAGE);
        infos.push(BufferEntryInfo { hash: 100 + i as u64, sequence: 1000 + i as u64, offset: total, len: (entry_pages[i] - 1) * PAGE + tail });
        total += entry_pages[i] * PAGE;
        // reference: close the blob if its index is full, move to the next block if the entry does not fit
        if rc >= CAP {
            rb += rp;
            rp = 1;
            rc = 0;
        }
        if rb + rp + entry_pages[i] > bp {
            rb = 0;
            rp = 1;
            rc = 0;
            rblock += 1;
        }
        exp_block[i] = rblock;
        exp_addr[i] = rb + rp;
        rp += entry_pages[i];
        rc += 1;
        i += 1;
    }
    // at the end of a batch a full index closes the blob
    if rc >= CAP {
        rb += rp;
        rp = 1;
        rc = 0;
    }
    let bytes = IoSliceMut::new(N * MAX_ENTRY).into_io_slice();
    let batch = Splitter::split(&mut ctx, bytes, infos);
    if GEOM {
        // per-entry geometry (scalar fields only - no pointer arithmetic, no page reads): walking blocks / parts / indices
        // in order yields the entries in input order at the block number and address the reference layout predicts
        let mut seen = 0usize;
        let mut bi = 0;
        while bi < N + 1 {
            if bi < batch.blocks.len() {
                let parts = &batch.blocks[bi].blob_parts;
                let mut pi = 0;
                while pi < N {
                    if pi < parts.len() {
                        let part = &parts[pi];
                        let mut at = part.blob_block_offset + part.part_blob_offset;
                        assert!(at + part.data.len() <= bp * PAGE && part.part_blob_offset >= INDEX, "C07-W1: blob part outside the block / over its index page");
                        let mut ii = 0;
                        while ii < N {
                            if ii < part.indices.len() {
                                let ix = &part.indices[ii];
                                assert!(seen < N, "C07-W1: more entries emitted than submitted");
                                assert!(ix.hash == 100 + seen as u64 && ix.sequence == 1000 + seen as u64, "C07-W1: entry order / identity changed by the splitter");
                                assert!(bi == exp_block[seen] && part.blob_block_offset + ix.offset as usize == exp_addr[seen] * PAGE,
                                    "C07-W1: recorded entry address differs from the layout rules (overlap / gap / wrong block)");
                                assert!(part.blob_block_offset + ix.offset as usize == at, "C07-W1: recorded entry address is not where its bytes go inside the part");
                                assert!(bits::align_up(PAGE, ix.len as usize) == entry_pages[seen] * PAGE, "C07-W1: recorded length differs from the entry's");
                                at += entry_pages[seen] * PAGE;
                                seen += 1;
                            }
                            ii += 1;
                        }
                        assert!(at == part.blob_block_offset + part.part_blob_offset + part.data.len(), "C07-W1: data part length differs from its entries");
                    }
                    pi += 1;
                }
            }
            bi += 1;
        }
        assert!(seen == N, "C07-W1: an entry was lost by the splitter");
    }
    assert!(inv(&ctx, bp * PAGE), "C07-W1: split context invariant broken after a batch");
    assert!(ctx.current_blob_block_offset == rb * PAGE, "C07-W1: next blob / open blob is not where the layout rules put it (overlap or gap)");
    assert!(ctx.current_part_blob_offset == rp * PAGE, "C07-W1: open blob's data end is not where the layout rules put it");
    assert!(ctx.current_blob_index.count == rc, "C07-W1: open blob's entry count differs from the layout rules");
    kani::cover!(true, "end reached");
    std::mem::forget(batch);
    std::mem::forget(ctx);
}
