// Kani harnesses for foyer-storage/src/store.rs — the real `Store::{load,enqueue,delete}` over the real `Keeper`, with a
// harness implementation of the crate's `Engine` trait standing where the block engine would be (the block engine owns
// tokio tasks and cannot be executed symbolically; `Store` only talks to it through `dyn Engine`).
//   C01 / C17 / C03-D6: lookup order (write queue first, then disk) and the decoded-key comparison that protects the
//                       hash-only disk index from collisions, misdirected reads and stale index entries;
//   C12:                admission decision of `enqueue` (force / filter admit / reject -> delete).
// hashbrown (Keeper) is compiled in its portable group implementation (--cfg miri).
#![allow(dead_code, unused_imports, unused_variables)]
use std::cell::{Cell, RefCell};

use foyer_common::properties::{Hint, Location};
use futures_core::future::BoxFuture;

use super::*;
use crate::keeper::PieceRef;

#[allow(dead_code, unused)]
mod stubs {
    include!("/verif/harness/common/stubs_storage.rs");
}
include!("/verif/harness/common/macros_storage.rs");
#[allow(dead_code, unused)]
mod exec {
    include!("/verif/harness/common/exec_min.rs");
}

#[derive(Debug, Clone, Copy, Default, PartialEq, Eq)]
pub struct SProps;
impl Properties for SProps {
    fn with_phantom(self, _: bool) -> Self {
        self
    }
    fn phantom(&self) -> Option<bool> {
        None
    }
    fn with_hint(self, _: Hint) -> Self {
        self
    }
    fn hint(&self) -> Option<Hint> {
        None
    }
    fn with_location(self, _: Location) -> Self {
        self
    }
    fn location(&self) -> Option<Location> {
        None
    }
    fn with_age(self, _: Age) -> Self {
        self
    }
    fn age(&self) -> Option<Age> {
        None
    }
}

/// hash(k) = k >> 4: keys 16 and 17 collide on all 64 bits.
#[derive(Debug, Clone, Copy, Default)]
pub struct IdHasher;
pub struct IdHasherState(u64);
impl std::hash::Hasher for IdHasherState {
    fn finish(&self) -> u64 {
        self.0 >> 4
    }
    fn write(&mut self, _bytes: &[u8]) {
        panic!("IdHasher supports u64 keys only");
    }
    fn write_u64(&mut self, i: u64) {
        self.0 = i;
    }
}
impl std::hash::BuildHasher for IdHasher {
    type Hasher = IdHasherState;
    fn build_hasher(&self) -> IdHasherState {
        IdHasherState(0)
    }
}

/// What the harness engine answers to `load(hash)`.
#[derive(Clone, Copy, PartialEq, Eq)]
pub enum Answer {
    Miss,
    Throttled,
    Error,
    /// the disk returned a decoded entry (key, value) for this hash — possibly another key's (collision, stale index)
    Entry(u64, u64),
}

pub struct HEngine {
    answer: Cell<Answer>,
    filter: Cell<u8>, // 0 admit, 1 reject, 2 throttled
    forbid_enqueue: Cell<bool>,
    loads: Cell<usize>,
    enqueued: Cell<usize>,
    deleted: Cell<usize>,
    last_enqueued: Cell<(u64, u64)>,
    last_deleted: Cell<u64>,
    /// the write queue keeps its PieceRefs until the write completes: the harness keeps them here
    queue: RefCell<[Option<PieceRef<u64, u64, SProps>>; 2]>,
}
unsafe impl Send for HEngine {}
unsafe impl Sync for HEngine {}
impl Debug for HEngine {
    fn fmt(&self, _f: &mut std::fmt::Formatter<'_>) -> std::fmt::Result {
        Ok(())
    }
}
impl Engine<u64, u64, SProps> for HEngine {
    fn device(&self) -> &Arc<dyn Device> {
        panic!("harness engine has no device");
    }
    fn filter(&self, _hash: u64, _estimated_size: usize) -> StorageFilterResult {
        match self.filter.get() {
            0 => StorageFilterResult::Admit,
            1 => StorageFilterResult::Reject,
            _ => StorageFilterResult::Throttled(std::time::Duration::from_millis(1)),
        }
    }
    fn enqueue(&self, piece: PieceRef<u64, u64, SProps>, _estimated_size: usize) {
        // in the reject / throttle harnesses reaching the write queue at all is the violation: fail right here (the rest of
        // the admit path - keeper bookkeeping, drop glue of the queued piece - is expensive and irrelevant then)
        assert!(!self.forbid_enqueue.get(), "C12: rejected / throttled entry was written");
        self.last_enqueued.set((*piece.key(), *piece.value()));
        // the write queue keeps its PieceRef until the write completes: the harness leaks it (its Drop never runs, so the
        // keeper entry stays) instead of storing it - storing it in a RefCell'd array made the admit path 10 GB
        std::mem::forget(piece);
        self.enqueued.set(self.enqueued.get() + 1);
    }
    fn load(&self, _hash: u64) -> BoxFuture<'static, Result<Load<u64, u64, SProps>>> {
        self.loads.set(self.loads.get() + 1);
        let r = match self.answer.get() {
            Answer::Miss => Ok(Load::Miss),
            Answer::Throttled => Ok(Load::Throttled),
            Answer::Error => Err(foyer_common::error::Error::new(foyer_common::error::ErrorKind::Io, "harness: device error")),
            Answer::Entry(k, v) => Ok(Load::Entry { key: k, value: v, populated: Populated { age: Age::Old } }),
        };
        Box::pin(std::future::ready(r))
    }
    fn delete(&self, hash: u64) {
        self.last_deleted.set(hash);
        self.deleted.set(self.deleted.get() + 1);
    }
    fn may_contains(&self, _hash: u64) -> bool {
        false
    }
    fn destroy(&self) -> BoxFuture<'static, Result<()>> {
        Box::pin(std::future::ready(Ok(())))
    }
    fn wait(&self) -> BoxFuture<'static, ()> {
        Box::pin(std::future::ready(()))
    }
    fn close(&self) -> BoxFuture<'static, Result<()>> {
        Box::pin(std::future::ready(Ok(())))
    }
}

/// `Spawner` is an enum over tokio runtime handles and cannot be built without a live runtime (threads, epoll, TLS).
/// `Store::{load,enqueue,delete}` never touch it; the harness stores a never-read, never-dropped placeholder.
fn placeholder_spawner() -> Spawner {
    let mut s = std::mem::MaybeUninit::<Spawner>::uninit();
    unsafe {
        std::ptr::write_bytes(s.as_mut_ptr() as *mut u8, 8, std::mem::size_of::<Spawner>());
        s.assume_init()
    }
}

type S = Store<u64, u64, IdHasher, SProps>;

/// The store is wrapped in `ManuallyDrop`: it must never be dropped (placeholder spawner), also not by the unwinding of a
/// failed assertion when a counterexample is replayed natively.
fn mk_store() -> (std::mem::ManuallyDrop<S>, Arc<HEngine>) {
    let engine = Arc::new(HEngine {
        answer: Cell::new(Answer::Miss),
        filter: Cell::new(0),
        forbid_enqueue: Cell::new(false),
        loads: Cell::new(0),
        enqueued: Cell::new(0),
        deleted: Cell::new(0),
        last_enqueued: Cell::new((0, 0)),
        last_deleted: Cell::new(0),
        queue: RefCell::new([None, None]),
    });
    let store = Store {
        inner: Arc::new(StoreInner {
            hasher: Arc::new(IdHasher),
            keeper: Keeper::new(1),
            engine: engine.clone(),
            compression: Compression::None,
            spawner: placeholder_spawner(),
            metrics: Arc::new(Metrics::noop()),
            // the native replay builds the crate as a test (cfg(test)): the struct then has this extra field
            #[cfg(any(test, feature = "test_utils"))]
            load_throttle_switch: Default::default(),
        }),
    };
    (std::mem::ManuallyDrop::new(store), engine)
}

/// The KIND of the engine's answer is concrete per harness (a symbolic choice between `Ok(..)` and `Err(Error)` makes CBMC
/// merge the variants' bytes and then explore the drop glue of a half-symbolic `Error` - backtrace frames, anyhow source -
/// on every path); the decoded key and value of an `Entry` answer are symbolic.
fn answer_of(t: u8) -> Answer {
    match t {
        0 => Answer::Miss,
        1 => Answer::Throttled,
        2 => Answer::Error,
        _ => Answer::Entry(kani::any(), kani::any()),
    }
}

/// L1: nothing queued. Whatever the disk tier answers for the hash (any decoded key, any value, miss, throttle, error),
/// `load(q)` yields a value only if the decoded key equals q, and then exactly the decoded value; an error stays an error.
fn l1(kind: u8) {
    let (store, engine) = mk_store();
    // literal requested key (a symbolic key is a symbolic hash for the keeper's table); the disk answer's key is symbolic
    let q: u64 = 16;
    let a = answer_of(kind);
    engine.answer.set(a);
    let r = exec::block_on(store.load(&q), 4);
    match (&r, a) {
        (Ok(Load::Entry { key, value, .. }), Answer::Entry(k, v)) => {
            assert!(k == q, "C01/C17/C03: disk answer for another key surfaced as a hit (decoded key not compared)");
            assert!(*key == q && *value == v, "C01: hit does not carry the decoded key/value");
        }
        (Ok(Load::Miss), Answer::Entry(k, _)) => assert!(k != q, "load missed although the disk returned the requested key"),
        (Ok(Load::Miss), Answer::Miss) => {}
        (Ok(Load::Throttled), Answer::Throttled) => {}
        (Err(_), Answer::Error) => {}
        _ => panic!("C01/C03: load result does not correspond to the disk tier's answer"),
    }
    assert!(engine.loads.get() == 1);
    kani::cover!(matches!(a, Answer::Entry(k, _) if k != q && (k >> 4) == (q >> 4)), "opt: colliding other key answered");
    kani::cover!(matches!(r, Ok(Load::Entry { .. })), "opt: hit");
    kani::cover!(true, "end reached");
    std::mem::forget(r);
    std::mem::forget(store);
    std::mem::forget(engine);
}
verif_harness! { c01_store_load_disk_entry, 6, { l1(3); } }
verif_harness! { c01_store_load_disk_miss, 6, { l1(0); } }
verif_harness! { c01_store_load_disk_throttled, 6, { l1(1); } }
verif_harness! { c01_store_load_disk_error, 6, { l1(2); } }

/// L2: key A (16) or its full-hash twin B (17) was enqueued (force) and is still in the write queue. `load(q)` for q in
/// {16,17,32}: the queued key is answered from the write queue with the queued value and without touching the disk;
/// the twin is NOT answered from the queue — it goes to the disk tier and is subject to L1's key check.
fn l2(queued_key: u64, q: u64, kind: u8) {
    let (store, engine) = mk_store();
    let v: u64 = kani::any();
    let piece = foyer_memory::verif_export::verif_piece(queued_key, v, SProps, queued_key >> 4, 1);
    store.enqueue(piece, true);
    assert!(engine.enqueued.get() == 1 && engine.last_enqueued.get() == (queued_key, v), "C12: forced enqueue did not reach the engine exactly once");
    let a = answer_of(kind);
    engine.answer.set(a);
    let r = exec::block_on(store.load(&q), 4);
    if q == queued_key {
        match &r {
            Ok(Load::Piece { piece, .. }) => {
                assert!(*piece.key() == q && *piece.value() == v, "C01-K1: write queue answered with another entry");
                assert!(engine.loads.get() == 0, "C01: disk consulted although the newest version is in the write queue");
            }
            _ => panic!("C01-K1: entry that is only in the disk write queue was not found there"),
        }
    } else {
        match (&r, a) {
            (Ok(Load::Entry { key, value, .. }), Answer::Entry(k, vv)) => assert!(k == q && *key == q && *value == vv, "C17: colliding key aliased on disk"),
            (Ok(Load::Piece { .. }), _) => panic!("C17: write queue answered a lookup with a colliding key's piece"),
            (Ok(Load::Miss), Answer::Entry(k, _)) => assert!(k != q),
            (Ok(Load::Miss), Answer::Miss) | (Ok(Load::Throttled), Answer::Throttled) | (Err(_), Answer::Error) => {}
            _ => panic!("C01/C03: load result does not correspond to the disk tier's answer"),
        }
    }
    kani::cover!(true, "end reached");
    std::mem::forget(r);
    std::mem::forget(store);
    std::mem::forget(engine);
}
// queued key / looked-up key / answer kind are concrete per harness; values and the disk answer's (key, value) are symbolic
verif_harness! { c01_store_load_queue_first_same, 6, { l2(16, 16, 3); } }
verif_harness! { c01_store_load_queue_first_twin, 6, { l2(16, 17, 3); } }
verif_harness! { c01_store_load_queue_first_twin_miss, 6, { l2(17, 16, 0); } }
verif_harness! { c01_store_load_queue_first_other, 6, { l2(16, 32, 3); } }

/// E1 (C12 admission): `enqueue(piece, force)` reaches the engine exactly once iff forced or the filter admits; otherwise
/// nothing is queued and the key's disk copy is deleted (so a rejected update cannot leave a stale older version behind).
fn e1(f: u8, force: bool) {
    let (store, engine) = mk_store();
    engine.filter.set(f);
    engine.forbid_enqueue.set(!force && f != 0);
    // literal key (a symbolic key means a symbolic hash, i.e. a symbolic probe position in the keeper's hash table), symbolic value
    let k: u64 = 16;
    let v: u64 = kani::any();
    let piece = foyer_memory::verif_export::verif_piece(k, v, SProps, k >> 4, 1);
    store.enqueue(piece, force);
    if force || f == 0 {
        assert!(engine.enqueued.get() == 1 && engine.last_enqueued.get() == (k, v), "C12: admitted entry not written exactly once");
        assert!(engine.deleted.get() == 0);
    } else {
        assert!(engine.enqueued.get() == 0, "C12: rejected / throttled entry was written");
        assert!(engine.deleted.get() == 1 && engine.last_deleted.get() == k >> 4, "C01: rejected update did not invalidate the older disk copy");
    }
    kani::cover!(true, "end reached");
    std::mem::forget(store);
    std::mem::forget(engine);
}
verif_harness! { c12_store_enqueue_admit, 6, { e1(0, false); } }
verif_harness! { #[kani::stub(crate::keeper::Keeper::insert, crate::keeper::Keeper::verif_insert_forbidden)] c12_store_enqueue_reject, 6, { e1(1, false); } }
verif_harness! { #[kani::stub(crate::keeper::Keeper::insert, crate::keeper::Keeper::verif_insert_forbidden)] c12_store_enqueue_throttled, 6, { e1(2, false); } }
verif_harness! { c12_store_enqueue_forced_reject, 6, { e1(1, true); } }

// native replay of counterexamples: bin/check writes the unit test Kani generated (`--concrete-playback=print`) into the
// included file and runs `cargo kani playback`; the file is empty otherwise.
#[allow(unused_imports, dead_code)]
mod playback {
    use super::*;
    include!("/verif/harness/playback/foyer-storage/store__verif_kani.rs");
}
