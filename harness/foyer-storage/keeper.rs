// Kani harnesses for foyer-storage/src/keeper.rs — C01-K1 (write-queue visibility), C17 (colliding keys in the write queue).
// hashbrown is compiled in its portable group implementation (--cfg miri).
#![allow(dead_code, unused_imports, unused_variables)]
use foyer_common::properties::{Age, Hint, Location, Properties};

use super::*;

#[allow(dead_code, unused)]
mod stubs {
    include!("/verif/harness/common/stubs_storage.rs");
}
include!("/verif/harness/common/macros_storage.rs");

#[derive(Debug, Clone, Copy, Default, PartialEq, Eq)]
pub struct KProps;
impl Properties for KProps {
    fn with_phantom(self, _: bool) -> Self {
        self
    }
    fn phantom(&self) -> Option<bool> {
        None
    }
    fn with_hint(self, _: Hint) -> Self {
        self
    }
    fn hint(&self) -> Option<Hint> {
        None
    }
    fn with_location(self, _: Location) -> Self {
        self
    }
    fn location(&self) -> Option<Location> {
        None
    }
    fn with_age(self, _: Age) -> Self {
        self
    }
    fn age(&self) -> Option<Age> {
        None
    }
}

impl<K, V, P> Keeper<K, V, P>
where
    K: foyer_common::code::StorageKey,
{
    /// Stub target for the reject / throttle harnesses of `Store::enqueue` (store.rs): on those paths the write queue must
    /// not be touched at all, so reaching `Keeper::insert` is the violation.  (The real `insert` - a hashbrown insert through
    /// raw-pointer pieces - does not discharge, 0.5; natively the harness engine's `forbid_enqueue` panics instead.)
    pub fn verif_insert_forbidden(&self, _piece: foyer_memory::Piece<K, V, P>) -> PieceRef<K, V, P> {
        panic!("C12: rejected / throttled entry was put on the write queue (Keeper::insert reached)");
    }
}

type K = Keeper<u64, u64, KProps>;
type R = PieceRef<u64, u64, KProps>;

fn piece(key: u64, version: u64, hash: u64) -> foyer_memory::Piece<u64, u64, KProps> {
    foyer_memory::verif_export::verif_piece(key, version, KProps, hash, 1)
}

/// K1: keys A and B (hash chosen per harness: colliding on all 64 bits, or distinct).  A symbolic sequence of NOPS steps,
/// each either `insert(piece of A|B with the next version)` (the PieceRef is kept, as the flusher keeps it until the
/// write completed) or "the write of the i-th queued piece completed" (its PieceRef is dropped).
/// Oracle after every step, for each key: if the newest inserted version of the key is still queued (its PieceRef is
/// alive) then `get(hash,key)` returns exactly that version; `get` never returns a piece of the other key, and never a
/// version whose PieceRef has been dropped (its write completed; the disk index is the authority for it now).
fn k1(hash_a: u64, hash_b: u64, nops: usize) {
    const A: u64 = 16;
    const B: u64 = 17;
    let keeper: K = Keeper::new(1);
    // queue slots: (key idx, version) of live PieceRefs
    let mut refs: [Option<R>; 4] = [None, None, None, None];
    let mut meta: [(usize, u64); 4] = [(0, 0); 4];
    let mut newest: [u64; 2] = [0, 0]; // newest inserted version per key (0 = none)
    let mut version = 0u64;
    let mut superseded_done = false;
    let mut step = 0;
    while step < nops {
        let ins: bool = kani::any();
        let i: usize = kani::any();
        kani::assume(i < 4);
        if ins {
            kani::assume(refs[i].is_none());
            let ki: usize = if kani::any() { 0 } else { 1 };
            let (key, hash) = if ki == 0 { (A, hash_a) } else { (B, hash_b) };
            version += 1;
            let r = keeper.insert(piece(key, version, hash));
            refs[i] = Some(r);
            meta[i] = (ki, version);
            newest[ki] = version;
        } else {
            kani::assume(refs[i].is_some());
            let (ki, v) = meta[i];
            if v < newest[ki] {
                superseded_done = true;
            }
            let r = refs[i].take();
            drop(r); // PieceRef::drop: the write of this piece completed
        }
        // ---- oracle ----
        let mut ki = 0;
        while ki < 2 {
            let (key, hash) = if ki == 0 { (A, hash_a) } else { (B, hash_b) };
            let got = keeper.get(hash, &key);
            // is the newest version of this key still queued?
            let mut newest_alive = false;
            let mut j = 0;
            while j < 4 {
                if refs[j].is_some() && meta[j].0 == ki && meta[j].1 == newest[ki] {
                    newest_alive = true;
                }
                j += 1;
            }
            match &got {
                Some(p) => {
                    assert!(*p.key() == key, "C17/C01-K1: write queue answered a lookup with another key's piece");
                    assert!(*p.value() == newest[ki], "C01-K1: write queue returned an older version than the newest queued one");
                }
                None => {
                    assert!(!newest_alive, "C01-K1: newest version is still in the write queue but the lookup misses it (an older on-disk version would be served)");
                }
            }
            std::mem::forget(got);
            ki += 1;
        }
        step += 1;
    }
    kani::cover!(superseded_done, "opt: write of a superseded version completed while the newer one was queued");
    kani::cover!(true, "end reached");
    std::mem::forget(refs);
    std::mem::forget(keeper);
}

macro_rules! k1h {
    ($name:ident, $ha:expr, $hb:expr, $n:expr) => {
        verif_harness! { $name, 6, { k1($ha, $hb, $n); } }
    };
}
k1h!(c01_k1_keeper_collide_3, 1, 1, 3);
k1h!(c01_k1_keeper_distinct_3, 1, 2, 3);
k1h!(c01_k1_keeper_collide_4, 1, 1, 4);

/// Concrete schedules (keys, order of enqueue / write-completion literal; values symbolic).  `sched` is a list of steps:
/// (true, key_idx) = enqueue the next version of key A(0)/B(1); (false, i) = the write of the i-th enqueued piece completes.
fn k1c<const N: usize>(hash_b: u64, sched: [(bool, usize); N]) {
    const A: u64 = 16;
    const B: u64 = 17;
    let keeper: K = Keeper::new(1);
    let salt: u64 = kani::any();
    kani::assume(salt < (1 << 32));
    let mut refs: [Option<R>; N] = std::array::from_fn(|_| None);
    let mut meta: [(usize, u64); N] = [(0, 0); N];
    let mut newest: [u64; 2] = [0, 0];
    let mut n_enq = 0usize;
    let mut version = 0u64;
    let mut s = 0;
    while s < N {
        let (enq, x) = sched[s];
        if enq {
            let (key, hash) = if x == 0 { (A, 1) } else { (B, hash_b) };
            version += 1;
            let val = (salt << 8) | version; // symbolic payload, literal version tag
            refs[n_enq] = Some(keeper.insert(piece(key, val, hash)));
            meta[n_enq] = (x, val);
            newest[x] = val;
            n_enq += 1;
        } else {
            let r = refs[x].take().expect("harness schedule: completing a write twice");
            drop(r);
        }
        // oracle
        let mut ki = 0;
        while ki < 2 {
            let (key, hash) = if ki == 0 { (A, 1) } else { (B, hash_b) };
            let got = keeper.get(hash, &key);
            let mut newest_alive = false;
            let mut j = 0;
            while j < N {
                if refs[j].is_some() && meta[j].0 == ki && meta[j].1 == newest[ki] {
                    newest_alive = true;
                }
                j += 1;
            }
            match &got {
                Some(p) => {
                    assert!(*p.key() == key, "C17/C01-K1: write queue answered a lookup with another key's piece");
                    assert!(*p.value() == newest[ki], "C01-K1: write queue returned an older version than the newest queued one");
                }
                None => assert!(!newest_alive, "C01-K1: newest version is still in the write queue but the lookup misses it (an older on-disk version would be served)"),
            }
            std::mem::forget(got);
            ki += 1;
        }
        s += 1;
    }
    kani::cover!(true, "end reached");
    std::mem::forget(refs);
    std::mem::forget(keeper);
}
const E_A: (bool, usize) = (true, 0);
const E_B: (bool, usize) = (true, 1);
const fn done(i: usize) -> (bool, usize) {
    (false, i)
}
// v1 queued, v2 queued, write of v1 completes (then of v2)
verif_harness! { c01_k1_keeper_supersede, 6, { k1c(1, [E_A, E_A, done(0), done(1)]); } }
// v1, v2 queued, write of v2 completes first (out of order), then v1
verif_harness! { c01_k1_keeper_supersede_rev, 6, { k1c(1, [E_A, E_A, done(1), done(0)]); } }
// three versions, middle one completes
verif_harness! { c01_k1_keeper_three, 6, { k1c(1, [E_A, E_A, E_A, done(1), done(0)]); } }
// twins (full 64-bit collision): completing one key's write leaves the other key's piece queued
verif_harness! { c17_keeper_twins, 6, { k1c(1, [E_A, E_B, done(0), E_A, done(1)]); } }
verif_harness! { c17_keeper_twins_supersede, 6, { k1c(1, [E_A, E_B, E_A, done(0), done(1)]); } }
// distinct hashes
verif_harness! { c01_k1_keeper_distinct, 6, { k1c(2, [E_A, E_B, E_A, done(0)]); } }

verif_harness! { exp_keeper_a_insert, 6, {
    let keeper: K = Keeper::new(1);
    let r = keeper.insert(piece(16, kani::any(), 1));
    kani::cover!(true, "end reached");
    std::mem::forget((r, keeper));
} }
verif_harness! { exp_keeper_b_insert_get, 6, {
    let keeper: K = Keeper::new(1);
    let v: u64 = kani::any();
    let r = keeper.insert(piece(16, v, 1));
    let g = keeper.get(1, &16u64);
    assert!(*g.as_ref().unwrap().value() == v);
    kani::cover!(true, "end reached");
    std::mem::forget((r, g, keeper));
} }
verif_harness! { exp_keeper_c_insert_drop, 6, {
    let keeper: K = Keeper::new(1);
    let r = keeper.insert(piece(16, kani::any(), 1));
    drop(r);
    let g = keeper.get(1, &16u64);
    assert!(g.is_none());
    kani::cover!(true, "end reached");
    std::mem::forget((g, keeper));
} }

// native replay of counterexamples: bin/check writes the unit test Kani generated (`--concrete-playback=print`) into the
// included file and runs `cargo kani playback`; the file is empty otherwise.
#[allow(unused_imports, dead_code)]
mod playback {
    use super::*;
    include!("/verif/harness/playback/foyer-storage/keeper__verif_kani.rs");
}
