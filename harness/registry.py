"""Registry of Kani proof harnesses: which property / obligation each serves, in which tier it runs, its bounds and
what it encodes.  Read by /verif/bin/check.  (Pure data; no logic beyond small constructors.)"""

COMMON_STUBS = [
    "tracing callsite interest/__is_enabled/Event::dispatch -> disabled (logging has an empty body)",
    "parking_lot RawRwLock/RawMutex slow paths -> panic!(\"deadlock ...\") (a lock requested while held in a sequential harness)",
    "std::backtrace::Backtrace::capture -> disabled; alloc::fmt::format -> empty String",
    "core::panicking::panic_nounwind{,_fmt} -> plain panic",
    "foyer_common::error::Error::{new,with_context,with_source} -> same ErrorKind, no message/context/source/backtrace",
]
MEMORY_STUBS = COMMON_STUBS + ["mixtrics::metrics::Buckets::{exponential,linear} -> empty Vec (no-op metrics registry)"]
STORAGE_STUBS = COMMON_STUBS + [
    "foyer_storage::serde::Checksummer::checksum64 -> deterministic fold over all bytes and the length (NOT collision resistant; xxhash64 itself is outside the claim)",
    "std::time::Instant::now -> constant (durations only feed no-op metrics)",
]
TAKE_STUB = "InflightManager::take -> None (harness never enqueues a fetch, the in-flight table is empty)"

TRUSTED_BASE = [
    "rustc MIR -> kani-compiler 0.68 codegen -> CBMC 6.11 symbolic execution -> CaDiCaL",
    "CBMC flags: --max-field-sensitivity-array-size 2048, vtable restriction (-Z restrict-vtable), unwinding assertions ON",
    "the stub set listed per harness (coverage.samples[*].stubs)",
    "harness-side instantiation types (IdHasher, VecIndexer, HProps, recording listener/pipe, in-memory IoEngine) are type arguments of foyer's own generics, not models of foyer",
    "native replay: cargo kani playback of the same harness against the real code without stubs (dev + release)",
]

H = []


def h(prop, crate, module, name, obligation, functions, bounds, quick=True, tq=300, tt=1800, unwind=None, miri=False,
      memsafety=False, stubs=None, instantiation="", extra_props=()):
    H.append({
        "props": [prop] + list(extra_props), "crate": crate, "name": f"{module}::{name}", "obligation": obligation,
        "functions": functions, "bounds": bounds, "tiers": ("quick", "thorough") if quick else ("thorough",),
        "timeout": {"quick": tq, "thorough": tt}, "unwind": unwind, "miri": miri, "memsafety": memsafety,
        "stubs": stubs, "instantiation": instantiation,
    })


def stubs_for(hh):
    if hh.get("stubs") is not None:
        return hh["stubs"]
    return {"foyer-common": COMMON_STUBS[2:], "foyer-memory": MEMORY_STUBS, "foyer-storage": STORAGE_STUBS, "foyer": MEMORY_STUBS}[hh["crate"]]


def by_property():
    out = {}
    for x in H:
        for p in x["props"]:
            out.setdefault(p, []).append(x)
    return out


# =====================================================================================================================
# C08 — every storable key/value round-trips bit-exactly (Compression::None, non-serde path)
# =====================================================================================================================
CODE = "code::verif_kani"
NUM = ["u8", "u16", "u32", "u64", "u128", "usize", "i8", "i16", "i32", "i64", "i128", "isize", "f32", "f64"]
QUICK_NUM = {"u8", "u64", "u128", "i32", "f64", "usize"}
for t in NUM:
    h("C08", "foyer-common", CODE, f"c08_r1_{t}", "R1 round trip",
      f"<{t} as Code>::{{encode,decode,estimated_size}}, io::Write for &mut [u8], io::Read for &[u8]",
      f"every bit pattern of {t}; 20-byte destination; one arbitrary trailing byte", quick=t in QUICK_NUM, tq=240)
    h("C08", "foyer-common", CODE, f"c08_r2_{t}", "R2 size limit / truncation",
      f"<{t} as Code>::{{encode,decode}}, Error::io_error",
      f"every value of {t}; every destination / source length n < size_of::<{t}>() (n symbolic)", quick=t in QUICK_NUM, tq=240)
h("C08", "foyer-common", CODE, "c08_r1_bool", "R1+R2 bool", "<bool as Code>::{encode,decode,estimated_size}",
  "both values; decode of every byte value 0..=255; empty destination", tq=240)
for n in (0, 1, 2, 3, 4, 8):
    h("C08", "foyer-common", CODE, f"c08_r1_vec_{n}", "R1+R2 Vec<u8>", "<Vec<u8> as Code>::{encode,decode,estimated_size}",
      f"payload length exactly {n} bytes, contents symbolic; every too-small destination length (symbolic); every truncated source",
      quick=n in (0, 3), tq=300)
for n in (0, 1, 4, 8):
    h("C08", "foyer-common", CODE, f"c08_r1_bytes_{n}", "R1+R2 Bytes", "<bytes::Bytes as Code>::{encode,decode,estimated_size}",
      f"payload length exactly {n} bytes, contents symbolic; every too-small destination (symbolic length)", quick=n in (4,), tq=300)
for n in (0, 1, 2, 3):
    h("C08", "foyer-common", CODE, f"c08_r1_string_{n}", "R1+R2 String", "<String as Code>::{encode,decode,estimated_size}, String::from_utf8",
      f"payload length exactly {n} bytes, contents symbolic ASCII (bytes < 0x80); multi-byte UTF-8 is outside the symbolic claim",
      quick=n in (0, 2), tq=300)
BS = "engine::block::serde::verif_kani"
h("C08", "foyer-storage", BS, "c08_r3_header_roundtrip", "R3 header", "EntryHeader::{write,read}, Compression::{to_u8,try_from}",
  "every value of key_len,value_len,hash,sequence,checksum; compression tag 0..=2", tq=240)
SS = "serde::verif_kani"
for n in (0, 1, 3, 8):
    h("C08", "foyer-storage", SS, f"c08_r3_serialize_v{n}", "R3 framing",
      "EntrySerializer::{serialize,serialize_key,serialize_value,estimated_size}, TrackedWriter, EntryDeserializer::deserialize (u64 key, Vec<u8> value, Compression::None)",
      f"value payload exactly {n} bytes (symbolic contents), key symbolic u64, destination length symbolic 0..=40", quick=n in (1,), tq=300)

# =====================================================================================================================
# C03 — corrupted or misdirected bytes never surface as a value (decode layer)
# =====================================================================================================================
h("C03", "foyer-storage", BS, "c03_d1_header_read_arbitrary", "D1 header on arbitrary bytes", "EntryHeader::{read,write}, Compression::try_from",
  "all 2^288 36-byte inputs", tq=240)
for n in (0, 8, 16, 24):
    h("C03", "foyer-storage", SS, f"c03_d2_deser_len{n}", "D2 deserializer on arbitrary bytes",
      "EntryDeserializer::{deserialize,deserialize_key,deserialize_value} (u64 key, u64 value, Compression::None)",
      f"buffer of exactly {n} arbitrary bytes; key_len,value_len: all u32 values; checksum None or any u64", quick=n in (16,), tq=240)

OUTSIDE = {
    "C08": ["Zstd and Lz4 (C FFI, not executable by Kani)", "the serde feature's bincode path", "payloads longer than 8 bytes (page / buffer boundary sizes)",
            "multi-byte UTF-8 strings (symbolically); HybridCache::get after eviction to disk"],
    "C03": ["a forged checksum that matches damaged bytes (64-bit xxhash collision; checksum is stubbed)", "Zstd/Lz4 payloads",
            "Store::load key comparison and error->miss mapping (needs tokio Spawner)", "reopen orchestration (RecoverRunner)"],
}
ASSUMPTIONS = {
    "C08": ["payload lengths are concrete per harness (0..=8), contents symbolic"],
    "C03": ["buffer lengths are concrete per harness, contents symbolic"],
}
