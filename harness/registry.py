"""Registry of Kani proof harnesses: which property / obligation each serves, in which tier it runs, its bounds and
what it encodes.  Read by /verif/bin/check.  (Pure data; no logic beyond small constructors.)"""

COMMON_STUBS = [
    "tracing callsite interest/__is_enabled/Event::dispatch -> disabled (logging has an empty body)",
    "parking_lot RawRwLock/RawMutex slow paths -> panic!(\"deadlock ...\") (a lock requested while held in a sequential harness)",
    "std::backtrace::Backtrace::capture -> disabled; alloc::fmt::format -> empty String",
    "core::panicking::panic_nounwind{,_fmt} -> plain panic",
    "foyer_common::error::Error::{new,with_context,with_source} -> same ErrorKind, no message/context/source/backtrace",
    "std::alloc::dealloc -> no-op (memory is leaked; use-after-free is not visible in these harnesses)",
    "foyer_common::metrics::Metrics::noop -> Metrics::verif_noop (the same struct built directly from no-op metric objects)",
]
MEMORY_STUBS = COMMON_STUBS + ["mixtrics::metrics::Buckets::{exponential,linear} -> empty Vec (no-op metrics registry)"]
STORAGE_STUBS = COMMON_STUBS + [
    "foyer_storage::serde::Checksummer::checksum64 -> deterministic fold over all bytes and the length (NOT collision resistant; xxhash64 itself is outside the claim)",
    "std::time::Instant::now -> constant (durations only feed no-op metrics)",
]
TAKE_STUB = "InflightManager::take -> None (harness never enqueues a fetch, the in-flight table is empty)"

TRUSTED_BASE = [
    "rustc MIR -> kani-compiler 0.68 codegen -> CBMC 6.11 symbolic execution -> CaDiCaL",
    "CBMC flags: --max-field-sensitivity-array-size 2048 (per harness: coverage.samples[*].field_sensitivity), vtable restriction (-Z restrict-vtable, per harness), --no-assertion-reach-checks, --no-memory-safety-checks, unwinding assertions ON",
    "the stub set listed per harness (coverage.samples[*].stubs)",
    "harness-side instantiation types (IdHasher, VecIndexer, HProps, recording listener/pipe, in-memory IoEngine) are type arguments of foyer's own generics, not models of foyer",
    "native replay: cargo kani playback of the same harness against the real code without stubs (dev + release)",
]

H = []


def h(prop, crate, module, name, obligation, functions, bounds, quick=True, tq=300, tt=1800, unwind=None, miri=False,
      memsafety=False, stubs=None, instantiation="", extra_props=(), fs=None, rv=True, exp=False, mem=0):
    """exp=True: experimental tier only (`bin/check P --tier experimental`): harnesses that are kept in the tree but did not discharge
    within the thorough cap on this image; they are not part of any registered command (a check that cannot finish proves nothing)."""
    H.append({
        "props": [prop] + list(extra_props), "crate": crate, "name": f"{module}::{name}", "obligation": obligation,
        "functions": functions, "bounds": bounds, "tiers": ("experimental",) if exp else (("quick", "thorough") if quick else ("thorough",)),
        "timeout": {"quick": tq, "thorough": tt}, "unwind": unwind, "miri": miri, "memsafety": memsafety,
        "stubs": stubs, "instantiation": instantiation, "fs": fs, "rv": rv, "mem": mem,
    })


def stubs_for(hh):
    if hh.get("stubs") is not None:
        return hh["stubs"]
    return {"foyer-common": COMMON_STUBS[2:6], "foyer-memory": MEMORY_STUBS, "foyer-storage": STORAGE_STUBS, "foyer": MEMORY_STUBS}[hh["crate"]]


def by_property():
    out = {}
    for x in H:
        for p in x["props"]:
            out.setdefault(p, []).append(x)
    return out


# =====================================================================================================================
# C08 — every storable key/value round-trips bit-exactly (Compression::None, non-serde path)
# =====================================================================================================================
CODE = "code::verif_kani"
NUM = ["u8", "u16", "u32", "u64", "u128", "usize", "i8", "i16", "i32", "i64", "i128", "isize", "f32", "f64"]
QUICK_NUM = {"u64", "i32", "f64"}
for t in NUM:
    h("C08", "foyer-common", CODE, f"c08_r1_{t}", "R1 round trip",
      f"<{t} as Code>::{{encode,decode,estimated_size}}, io::Write for &mut [u8], io::Read for &[u8]",
      f"every bit pattern of {t}; 20-byte destination; one arbitrary trailing byte", quick=t in QUICK_NUM, tq=240)
    h("C08", "foyer-common", CODE, f"c08_r2_{t}", "R2 size limit / truncation",
      f"<{t} as Code>::{{encode,decode}}, Error::io_error",
      f"every value of {t}; every destination / source length n < size_of::<{t}>() (n symbolic)", quick=t in QUICK_NUM, tq=240)
h("C08", "foyer-common", CODE, "c08_r1_bool", "R1+R2 bool", "<bool as Code>::{encode,decode,estimated_size}",
  "both values; decode of every byte value 0..=255; empty destination", tq=240)
for n in (0, 1, 2, 3, 4, 8):
    h("C08", "foyer-common", CODE, f"c08_r1_vec_{n}", "R1+R2 Vec<u8>", "<Vec<u8> as Code>::{encode,decode,estimated_size}",
      f"payload length exactly {n} bytes, contents symbolic; every too-small destination length (symbolic); every truncated source",
      quick=n in (3,), tq=300)
for n in (0, 1, 4, 8):
    h("C08", "foyer-common", CODE, f"c08_r1_bytes_{n}", "R1+R2 Bytes", "<bytes::Bytes as Code>::{encode,decode,estimated_size}",
      f"payload length exactly {n} bytes, contents symbolic; every too-small destination (symbolic length)", quick=n in (4,), tq=300)
for n in (0, 1, 2, 3):
    h("C08", "foyer-common", CODE, f"c08_r1_string_{n}", "R1+R2 String", "<String as Code>::{encode,decode,estimated_size}, String::from_utf8",
      f"payload length exactly {n} bytes, contents symbolic ASCII (bytes < 0x80); multi-byte UTF-8 is outside the symbolic claim",
      quick=n in (2,), tq=600)
h("C08", "foyer-common", CODE, "c08_r1_string_multibyte", "R1 String with multi-byte UTF-8 (encode side, symbolic)", "<String as Code>::{encode,estimated_size}",
  "every string of one two-byte scalar (U+0080..U+07FF), optionally preceded by one ASCII byte", quick=True, tq=300)
h("C08", "foyer-common", CODE, "c08_r1_string_multibyte_concrete", "R1 String with multi-byte UTF-8 (encode+decode, concrete samples)", "<String as Code>::{encode,decode}, String::from_utf8",
  "three concrete strings with 2-, 3- and 4-byte scalars", quick=True, tq=300)
BS = "engine::block::serde::verif_kani"
h("C08", "foyer-storage", BS, "c08_r3_header_roundtrip", "R3 header", "EntryHeader::{write,read}, Compression::{to_u8,try_from}",
  "every value of key_len,value_len,hash,sequence,checksum; compression tag 0..=2", tq=240)
SS = "serde::verif_kani"
for n in (0, 1, 3, 8):
    h("C08", "foyer-storage", SS, f"c08_r3_serialize_v{n}", "R3 framing",
      "EntrySerializer::{serialize,serialize_key,serialize_value,estimated_size}, TrackedWriter, EntryDeserializer::deserialize (u64 key, Vec<u8> value, Compression::None)",
      f"value payload exactly {n} bytes (symbolic contents), key symbolic u64, destination length symbolic 0..=40", quick=n in (1,), tq=300)

# =====================================================================================================================
# C03 — corrupted or misdirected bytes never surface as a value (decode layer)
# =====================================================================================================================
h("C03", "foyer-storage", BS, "c03_d1_header_read_arbitrary", "D1 header on arbitrary bytes", "EntryHeader::{read,write}, Compression::try_from",
  "all 2^288 36-byte inputs", tq=240)
for n in (0, 8, 16, 24):
    h("C03", "foyer-storage", SS, f"c03_d2_deser_len{n}", "D2 deserializer on arbitrary bytes",
      "EntryDeserializer::{deserialize,deserialize_key,deserialize_value} (u64 key, u64 value, Compression::None)",
      f"buffer of exactly {n} arbitrary bytes; key_len,value_len: all u32 values; checksum None or any u64", quick=n in (16,), tq=240)


# =====================================================================================================================
# foyer-memory: RawCache step harnesses (C05 accounting, C13 leave events / hand-off, C18 handles, C12-P1 / C01-S1 phantom
# advice, C16 lock oracle) -- one concrete pre-state + ONE operation with symbolic key / value / weight per harness
# =====================================================================================================================
RAW = "raw::verif_kani"
RAW_FUNCS = ("RawCache::{new,insert,insert_with_properties,insert_inner,remove,get,contains,touch,clear,evict_all,usage,entries}, "
             "RawCacheShard::{emplace,evict,remove,clear,get_*}, RawCacheEntry::{clone,drop,is_outdated,refs}, Sentry, ")
INST = {"fifo": "RawCache<Fifo<u64,u64,HProps>, IdHasher, VecIndexer>", "lru": "RawCache<Lru<u64,u64,HProps>(ratio 0.5), IdHasher, VecIndexer>",
        "sieve": "RawCache<Sieve<u64,u64,HProps>, IdHasher, VecIndexer>",
        "s3fifo": "RawCache<S3Fifo<u64,u64,HProps>(small 0.5, ghost 1.0, threshold 1), IdHasher, VecIndexer>",
        "lfu": "RawCache<Lfu<u64,u64,HProps>(window 0.4, protected 0.4, smallest sketch), IdHasher, VecIndexer>"}
TAKE = [TAKE_STUB]


S3_RAW_STUBS = ["std HashSet::insert -> no-op, GhostQueue::{contains,pop} -> on the ghost VecDeque (s3fifo.rs hook), RandomState::new -> fixed keys (std's HashSet is SSE2 hashbrown inside the prebuilt std)"]


def raw(name, alg, props, what, bounds, quick=False, tq=600, tt=1800):
    h(props[0], "foyer-memory", RAW, name, what, RAW_FUNCS + f"{alg.capitalize()}::{{push,pop,remove,acquire,release,clear}}", bounds,
      quick=quick, tq=tq, tt=tt, unwind=5, instantiation=INST[alg], extra_props=props[1:], stubs=MEMORY_STUBS + TAKE + (S3_RAW_STUBS if alg == "s3fifo" else []),
      memsafety=False, exp=(alg == "lfu"))


# The step harnesses are declared in /verif/harness/foyer-memory/raw.rs; the registry reads them from there so that the two
# cannot drift apart.  Which properties a scenario serves follows from its operation and flags.
import os as _os, re as _re

_RAW_SRC = open(_os.path.join(_os.path.dirname(_os.path.abspath(__file__)), "foyer-memory", "raw.rs")).read()
_OPS = {"OP_INSERT": "insert(key, v) with symbolic value v (weight v&3 in 0..3, bit 2 = rejected by the admission filter)",
        "OP_INSERT_LOW": "insert with Hint::Low, symbolic value", "OP_INSERT_DISK": "insert_with_properties(Location::OnDisk), symbolic value",
        "OP_REMOVE": "remove(key)", "OP_GET": "get(key), clone, drop", "OP_CLEAR": "clear()", "OP_EVICT_ALL": "evict_all()",
        "OP_GET_HOLD_INSERT": "get(key) and hold; insert another key (symbolic weight); drop; insert again",
        "OP_TOUCH_INSERT": "touch(key) (no handle is created); insert the absent key with symbolic weight 1..3",
        "OP_PIN_DROP_KEPT_LAST": "get(16) while its insert handle is alive, drop the lookup handle, drop the insert handle LAST, insert the absent key"}
_KEYN = {"0": "16 (resident)", "1": "17 (resident, same 64-bit hash as 16)", "2": "32 (absent)"}
QUICK_RAW = {
    # C05 / C13 core
    "raw_fifo_c2_ins_k2_w1", "raw_fifo_c2_ins_k2_w2", "raw_fifo_c2_ins_k2_w3", "raw_fifo_c2_ins_k0_w2", "raw_fifo_c2_ins_k2_w1r", "raw_fifo_c3_ins_k2_w1", "raw_fifo_c3_ins_k0_w3", "raw_fifo_c4_ins_k0_w1", "raw_fifo_c4_ins_k1_w3",
    "raw_fifo_c2_insdisk_k0_w2", "raw_fifo_c2_insdisk_k2_w1", "raw_fifo_c2_remove_k0", "raw_fifo_c2_clear", "raw_fifo_c2_evictall", "raw_lru_c2_ins_k2_w2", "raw_sieve_c2_ins_k2_w1",
    "raw_lru_c2_clear",
    # C18
    "raw_fifo_c2_get_k0", "raw_fifo_c2_hold_ins_k2_w1", "raw_lru_c2_hold_ins_k2_w2", "raw_lru_c2_hold_ins_k2_w3", "raw_lru_c2_keep_hold_ins_k2_w2", "raw_lru_c2_keep_pin_droplast_k0_w2", "raw_lru_c2_touch_ins_k0_w2",
    "raw_lru_c2_holdins_k0_w2", "raw_lru_c2_hold_evictall", "raw_lru_c2_hold_remove_k0",
    # S3-FIFO instantiation
    "raw_s3fifo_c2_ins_k2_w1", "raw_s3fifo_c2_ins_k2_w2", "raw_s3fifo_c2_clear", "raw_s3fifo_c2_hold_ins_k2_w1", "raw_s3fifo_c2_insdisk_k0_w2",
}


def _scenario(name, ety, keep, args, key, lit=None):
    alg = {"FifoT": "fifo", "LruT": "lru", "SieveT": "sieve", "S3FifoT": "s3fifo", "LfuT": "lfu"}[ety]
    cap, pre, npre, hold, pin, obs, op = args[:7]
    props = []
    what = []
    if op in ("OP_INSERT", "OP_INSERT_LOW", "OP_CLEAR", "OP_REMOVE", "OP_EVICT_ALL", "OP_TOUCH_INSERT", "OP_PIN_DROP_KEPT_LAST"):
        props.append("C05"); what.append("A1 accounting" + ("+A2 eviction bound" if "INSERT" in op else "") + ("+A3" if op == "OP_CLEAR" else ""))
    if op == "OP_INSERT_DISK" or (lit and lit[1] == "true"):
        props += ["C12", "C01", "C05"]; what.append("P1/S1 disk-only advice / filter rejection: not retained in memory, handed over once at last drop")
    if obs == "true":
        props.append("C13"); what.append("leave notifications / disk hand-off conservation")
    if hold == "true" or keep or op in ("OP_GET", "OP_GET_HOLD_INSERT", "OP_TOUCH_INSERT", "OP_REMOVE"):
        props.append("C18"); what.append("handle integrity, refs(), is_outdated(), pinning" + (" (insert handle alive during the lookup)" if keep else ""))
    # (every RawCache harness also carries the C16 lock oracle - slow paths panic - but only the c16_* harnesses are listed under C16)
    seen = []
    for q in props:
        if q not in seen:
            seen.append(q)
    capt = f"capacity {cap[5:-1]}"
    pret = {"FULL2": "resident: 16,17 each weight 1", "HEAVY": "resident: 16 (weight 2), 17 (weight 1)", "[None; 3]": "empty cache"}[pre]
    opt = _OPS[op]
    if lit:
        opt = opt.replace("symbolic value v (weight v&3 in 0..3, bit 2 = rejected by the admission filter)", "value").replace("symbolic value", "value").replace("with symbolic weight 1..3", "").replace("(symbolic weight)", "")
        opt += f" - inserted weight {lit[0]}" + (", rejected by the admission filter" if lit[1] == "true" else "") + ", 32-bit payload symbolic"
    bounds = f"1 shard, {capt}; {pret}" + ("; looked-up handle of 16 held across the step" if hold == "true" else "") + ("; insert handle of 16 still alive" if keep else "") + \
        f"; ONE operation: {opt}" + (f"; key {_KEYN[key]}" if key is not None and op not in ("OP_CLEAR", "OP_EVICT_ALL") else "")
    raw(name, alg, seen, "; ".join(what) or "operation result", bounds, quick=name in QUICK_RAW)


_A = r"(Some\(\d\)|None), (FULL2|HEAVY|\[None; 3\]), (\d), (true|false), (true|false), (true|false), (OP_\w+)"
for _m in _re.finditer(r"\nst!\((\w+), (\w+), [^;]*?, " + _A + r", (\d), (\d), (true|false)\);", _RAW_SRC):
    g = _m.groups()
    _scenario(g[0], g[1], False, list(g[2:9]), g[9], (g[10], g[11]))
for _m in _re.finditer(r"\nstep3!\((\w+), (\w+), (\w+), (\w+), [^;]*?, " + _A + r"\);", _RAW_SRC):
    g = _m.groups()
    for ki, nm in enumerate(g[:3]):
        _scenario(nm, g[3], False, list(g[4:]), str(ki))
for _m in _re.finditer(r"\nstep_harness!\((\w+), (\w+), [^;]*?sck?\(" + _A + r"(?:, (\d))?\)[^;]*\);", _RAW_SRC):
    g = _m.groups()
    lm = _re.search(r"lit: \((\d), (true|false)\)", _m.group(0))
    _scenario(g[0], g[1], "keep_insert_handle: true" in _m.group(0), list(g[2:9]), g[9], lm.groups() if lm else None)
for _m in _re.finditer(r"\nstep_harness_s3!\((\w+), [^;]*?sck?\(" + _A + r"(?:, (\d))?\)[^;]*\);", _RAW_SRC):
    g = _m.groups()
    lm = _re.search(r"lit: \((\d), (true|false)\)", _m.group(0))
    _scenario(g[0], "S3FifoT", False, list(g[1:8]), g[8], lm.groups() if lm else None)

for alg in ("fifo", "lru", "sieve"):
    for n in (2, 3):
        h("C05", "foyer-memory", RAW, f"shard_{alg}_{n}", f"A1+A2+A3 on a stack RawCacheShard, {n} fully symbolic operations",
          "RawCacheShard::{emplace,evict,remove,clear}, Sentry, " + alg.capitalize() + "::{push,pop,remove,clear}",
          f"capacity symbolic 0..=4; {n} operations, each a symbolic choice of emplace(key in {{16,17,32}}, weight 0..3, phantom?, low hint?) / remove(key) / clear / evict(0)",
          quick=(alg == "fifo" and n == 2), tq=900, tt=3000, unwind=6, instantiation=INST[alg].replace("RawCache", "RawCacheShard"), stubs=MEMORY_STUBS + TAKE,
          exp=(n == 3), mem=(0 if alg == "fifo" else 12))
h("C05", "foyer-memory", RAW, "c05_a4_capacity_split", "A4 shard capacities add up and differ by at most one", "RawCache::shard_capacity_for",
  "every total: usize, shards 1..=4", quick=True, tq=300, stubs=MEMORY_STUBS)

# ---- C16: callbacks re-enter the same cache ----
C16_FUNCS = RAW_FUNCS + "EventListener::on_leave / Weighter / Filter / Drop of the value type calling RawCache::{get,remove,insert} on the same cache"
def c16(name, alg, what, bounds, quick=False):
    h("C16", "foyer-memory", RAW, name, what, C16_FUNCS, "capacity 2, full (keys 16,17 weight 1); outer operation on a symbolic key; nested key symbolic; " + bounds,
      quick=quick, tq=600, tt=1800, unwind=5, instantiation=INST[alg].replace("u64,u64", "u64,DropVal"), stubs=MEMORY_STUBS + TAKE)
c16("c16_fifo_listener_insert", "fifo", "listener re-enters (remove) during insert (Evict/Replace notifications)", "nested = remove (write lock)", quick=True)
c16("c16_fifo_listener_remove", "fifo", "listener re-enters during remove", "nested = remove")
c16("c16_fifo_listener_clear", "fifo", "listener re-enters during clear", "nested = remove", quick=True)
c16("c16_fifo_listener_evictall", "fifo", "listener re-enters during evict_all", "nested = remove")
c16("c16_fifo_listener_insdisk", "fifo", "listener re-enters on the last drop of a disk-only entry", "nested = remove")
c16("c16_fifo_wf_insert", "fifo", "weighter and filter re-enter during insert", "nested = remove", quick=True)
c16("c16_fifo_drop_insert", "fifo", "value destructor re-enters when insert releases evicted/replaced records", "nested = remove", quick=True)
c16("c16_fifo_drop_remove", "fifo", "value destructor re-enters after remove", "nested = remove")
c16("c16_fifo_drop_clear", "fifo", "value destructor re-enters when clear releases records", "nested = remove")
c16("c16_fifo_drop_evictall", "fifo", "value destructor re-enters when evict_all releases records", "nested = remove")
c16("c16_fifo_drop_replace", "fifo", "value destructor of a REPLACED resident entry re-enters", "outer insert over resident key 16", quick=True)
c16("c16_fifo_drop_replace_younger", "fifo", "value destructor of a REPLACED resident entry re-enters (Replace branch of emplace; no listener installed)", "outer insert over the younger resident key 17", quick=True)
c16("c16_lru_drop_replace_younger", "lru", "value destructor of a REPLACED resident entry re-enters (LRU)", "outer insert over the younger resident key 17")
c16("c16_fifo_listener_replace_younger", "fifo", "listener re-enters on the Replace notification", "outer insert over the younger resident key 17")
c16("c16_fifo_drop_insdisk_resident", "fifo", "value destructor of a resident entry displaced by a disk-only insert re-enters", "outer disk-only insert over resident key 16", quick=True)
c16("c16_fifo_listener_insdisk_resident", "fifo", "listener re-enters when a disk-only insert displaces a resident entry", "outer disk-only insert over resident key 17")
c16("c16_lru_drop_insdisk_resident", "lru", "value destructor of a displaced resident entry re-enters (LRU)", "outer disk-only insert over resident key 16")
c16("c16_fifo_listener_insert_anyaction", "fifo", "listener re-enters with a symbolic nested action", "nested = symbolic get / remove / insert")
c16("c16_lru_listener_insert", "lru", "listener re-enters during insert (LRU)", "nested = remove")
c16("c16_lru_drop_insert", "lru", "value destructor re-enters (LRU)", "nested = remove")
c16("c16_lru_listener_clear", "lru", "listener re-enters during clear (LRU)", "nested = get")
c16("c16_sieve_listener_insert", "sieve", "listener re-enters during insert (SIEVE)", "nested = remove")
c16("c16_sieve_drop_insert", "sieve", "value destructor re-enters (SIEVE)", "nested = remove")

# =====================================================================================================================
# C14 -- differential against an executable reference of the documented rule
# =====================================================================================================================
EV = "eviction::verif_kani"
def c14(name, alg, cfg, nops, quick=False, tq=600):
    h("C14", "foyer-memory", EV, name, f"{alg} victim order == documented rule (lock-step differential + final drain)",
      f"{alg}::{{new,push,pop,remove,acquire,release}} on real Arc<Record>s (intrusive lists)",
      f"3 records, weights symbolic 1..=2, hints symbolic; {nops} symbolic operations from {{push,pop,remove,acquire,release}}; {cfg}",
      quick=quick, tq=tq, tt=3000, unwind=6, stubs=MEMORY_STUBS, exp=name in ("c14_lru_h2_5", "c14_lru_h1_4"))
c14("c14_fifo_3", "Fifo", "capacity 4", 3, quick=True)
c14("c14_fifo_4", "Fifo", "capacity 4", 4)
c14("c14_lru_h2_3", "Lru", "capacity 4, high_priority_pool_ratio 0.5 (pool weight 2)", 3, quick=True)
c14("c14_lru_h2_4", "Lru", "capacity 4, ratio 0.5", 4)
c14("c14_lru_h1_4", "Lru", "capacity 2, ratio 0.5 (pool weight 1)", 4)
c14("c14_lru_h0_4", "Lru", "capacity 4, ratio 0.0 (pool weight 0)", 4)
c14("c14_lru_h2_5", "Lru", "capacity 4, ratio 0.5", 5)
c14("c14_sieve_3", "Sieve", "capacity 4", 3, quick=True)
c14("c14_sieve_4", "Sieve", "capacity 4", 4)
c14("c14_sieve_5", "Sieve", "capacity 4", 5)
for nm, alg, what, q in (("c14_lru_script_release_full_pool", "Lru", "push0, acquire0, push1, release0, push2, pop (+drain): a held entry released into a pool that filled up meanwhile", True),
                         ("c14_lru_script_hold_two", "Lru", "two entries held and released in the other order around an insert and a pop", False),
                         ("c14_lru_script_remove_pinned", "Lru", "a pinned entry (acquired twice) is removed", False),
                         ("c14_lru_script_pop_while_pinned", "Lru", "pop while the oldest entry is pinned, release, pop (pool weight 1)", False),
                         ("c14_sieve_script_hand_wraps", "Sieve", "the hand skips two visited entries and wraps", True),
                         ("c14_sieve_script_remove_hand", "Sieve", "the entry under the hand is removed", False)):
    h("C14", "foyer-memory", EV, nm, f"{alg} scripted differential (literal operation sequence, symbolic weights 1..=2 and hints): " + what,
      f"{alg}::{{new,push,pop,remove,acquire,release}} on real Arc<Record>s", "3 records; literal sequence of 6-9 operations followed by a full drain", quick=q, tq=900, tt=2400, unwind=6, stubs=MEMORY_STUBS, mem=(22 if nm.startswith("c14_lru_script") else 0))
S3STUB = MEMORY_STUBS + ["std HashSet::{insert,remove} -> no-op and GhostQueue::contains -> linear scan of the ghost VecDeque (std's HashSet is SSE2 hashbrown inside the prebuilt std); "
                         "equivalent while no hash is ghosted twice (every record has a distinct hash)", "std::hash::RandomState::new -> fixed keys (never used)"]
for nm, cfgt, nops, q in (("c14_s3fifo_g2_4", "capacity 4, small 0.25 (1), ghost 0.5 (2), threshold 1", 4, True), ("c14_s3fifo_g2_5", "capacity 4, small 0.25, ghost 0.5, threshold 1", 5, False),
                          ("c14_s3fifo_g2_6", "capacity 4, small 0.25, ghost 0.5, threshold 1", 6, False), ("c14_s3fifo_t2_5", "capacity 4, small 0.5 (2), ghost 1.0 (4), threshold 2", 5, False)):
    h("C14", "foyer-memory", EV, nm, "S3-FIFO victim order == documented rule (lock-step differential + final drain)",
      "S3Fifo::{new,push,pop,remove,acquire}, GhostQueue::{new,push,pop} on real Arc<Record>s", f"3 records, weights symbolic 1..=2; {nops} symbolic operations; {cfgt}",
      quick=q, tq=600, tt=3000, unwind=6, stubs=S3STUB, exp=True)
h("C14", "foyer-memory", "eviction::s3fifo::verif_kani", "c14_s3fifo_ghost_direct", "S3-FIFO ghost queue driven directly: share bound and most-recent-window membership",
  "GhostQueue::{new,push} (+ pop / contains via the VecDeque, see stubs)", "capacity 2; three pushes with symbolic weights 1..=2", quick=True, tq=600, tt=1800, unwind=6, stubs=S3STUB, exp=True)
h("C14", "foyer-memory", EV, "c14_s3fifo_ghost_window", "S3-FIFO ghost queue remembers at most its configured share, most recent first",
  "S3Fifo::{push,pop}, GhostQueue::{push,pop}", "3 records with symbolic weights 1..=2 evicted through the small queue; ghost capacity 2", quick=True, tq=600, tt=1800, unwind=6, stubs=S3STUB, exp=True)

# =====================================================================================================================
# C11 / C17 / C06 building blocks: in-flight table (hashbrown portable groups)
# =====================================================================================================================
INF = "inflight::verif_kani"
h("C11", "foyer-memory", INF, "c11_x1_close_flag_take", "X1 close-flag identity (take)", "InflightManager::{new,enqueue,take}, hashbrown::HashTable::{entry,insert,remove}",
  "one key; take by id or by key (symbolic)", quick=True, tq=900, tt=3000, unwind=10, miri=True, stubs=MEMORY_STUBS)
h("C11", "foyer-memory", INF, "c11_x1_close_flag_fetch_or_take", "X1 close-flag identity (fetch_or_take)", "InflightManager::{new,enqueue,fetch_or_take}",
  "one key, leader without deferred fetch", quick=False, tq=900, tt=3000, unwind=10, miri=True, stubs=MEMORY_STUBS, exp=True)
for nm, what in (("c11_x2_late_disk_hit", "fetch task parked in its disk-lookup phase (FetchOptional), flag set, late hit"), ("c11_x2_late_origin_result", "fetch task parked in its origin phase (FetchRequired), flag set, late result"),
                 ("c11_x2_disk_hit_not_closed", "disk-lookup phase, flag clear: the hit is inserted"), ("c11_x2_origin_result_not_closed", "origin phase, flag clear: the result is inserted")):
    h("C11", "foyer-memory", RAW, nm, "X2 fetch-task side: a late fetch result is dropped once the close flag is set, and inserted otherwise: " + what,
      "RawFetch::poll, RawFetch::handle_target, RawCache::{insert,insert_with_properties_inner,get}", "one key, explicit insert of v_new (symbolic) before the poll, late answer v_old (symbolic, != v_new), close flag literal per harness",
      quick=True, tq=600, tt=1800, unwind=5, instantiation=INST["fifo"], stubs=MEMORY_STUBS + TAKE, exp=True)
h("C17", "foyer-memory", INF, "c17_inflight_collision", "in-flight table keeps colliding keys apart", "InflightManager::{enqueue,take}",
  "keys 16,17 with identical 64-bit hash; 3 enqueues, takes in symbolic order", quick=False, tq=900, tt=3000, unwind=10, miri=True, stubs=MEMORY_STUBS, exp=True)

h("C17", "foyer-memory", RAW, "c17_hash_table_indexer_collision", "memory index keeps colliding keys apart", "HashTableIndexer::{insert,get,remove}, hashbrown::HashTable::{entry,find}",
  "keys 16,17 with identical 64-bit hash (order symbolic), values symbolic; insert both, overwrite one, remove one (symbolic which)", quick=True, tq=900, tt=3000, unwind=8, miri=True, stubs=MEMORY_STUBS, exp=True)

# =====================================================================================================================
# foyer-storage
# =====================================================================================================================
KP = "keeper::verif_kani"
KF = "Keeper::{new,insert,get}, PieceRef::drop, Piece::{new,clone,drop}, hashbrown::HashTable::{entry,find} (portable groups)"
for nm, what, q, props in (("c01_k1_keeper_supersede", "v1, v2 queued; write of v1 completes, then v2", True, ["C01"]),
                            ("c01_k1_keeper_supersede_rev", "v1, v2 queued; write of v2 completes first", False, ["C01"]),
                            ("c01_k1_keeper_three", "three versions queued; the middle one completes, then the first", False, ["C01"]),
                            ("c17_keeper_twins", "keys with identical 64-bit hash; one key's write completes, the other stays queued", True, ["C17", "C01"]),
                            ("c17_keeper_twins_supersede", "twins with a superseding version of one of them", False, ["C17", "C01"]),
                            ("c01_k1_keeper_distinct", "two keys with distinct hashes", False, ["C01"])):
    h(props[0], "foyer-storage", KP, nm, "K1 write-queue visibility: " + what, KF, "concrete schedule of enqueue / write-completion steps, symbolic 32-bit payload; after every step: get() of both keys",
      quick=q, tq=600, tt=1800, unwind=6, miri=True, extra_props=props[1:], exp=True)
h("C01", "foyer-storage", KP, "c01_k1_keeper_collide_3", "K1 symbolic schedule, two keys colliding on all 64 hash bits", KF,
  "2 keys, 3 symbolic steps (insert next version of A|B / complete the write of a queued piece)", quick=False, tq=900, tt=3600, unwind=6, miri=True, extra_props=["C17"], exp=True)

BUF = "engine::block::buffer::verif_kani"
SPL = "Splitter::{split,split_blob,split_block,seal_blob}, BlobIndex::{write,seal,reset,is_full,capacity}, BufferEntryInfo::aligned, IoSlice::slice, BlobIndexReader::read, BlobEntryIndex::{read,write,aligned}"
HEAD = ["Checksummer::checksum64 -> loop-free fold of the length and the first 32 checksummed bytes (layout harnesses; integrity is decided elsewhere)"]
W1_NAMES = ["c07_w1_b4_b0_n1p1", "c07_w1_b4_b0_n1p3", "c07_w1_b4_b1_n1p3", "c07_w1_b4_b2_n1p2", "c07_w1_b4_b3_n1p1", "c07_w1_b4_b4_n1p1", "c07_w1_b4_b0_n2p12", "c07_w1_b4_b0_n2p22",
            "c07_w1_b4_b2_n2p11", "c07_w1_b4_b0_n3p111", "c07_w1_b4_b0_n3p312", "c07_w1_b4_b0p2c1_n1p1", "c07_w1_b4_b0p2c1_n1p3", "c07_w1_b4_b0p3c2_n1p1", "c07_w1_b4_b0p4c3_n1p1",
            "c07_w1_b4_b1p2c1_n2p11", "c07_w1_b4_b1p3c2_n2p12", "c07_w1_b4_b2p2c1_n1p2", "c07_w1_b256_c169_n1", "c07_w1_b256_c169_n1_b3", "c07_w1_b256_c168_n2", "c07_w1_b256_c169_n2",
            "c07_w1_b256_c168_n3", "c07_w1_b256_c100_near_end", "c07_w1_b256_fresh_n2"]
for nm in W1_NAMES:
    h("C07", "foyer-storage", BUF, nm, "W1 splitter step from a literal pre-state structure + W2 index page / reader / scanner agreement (DOES NOT DISCHARGE: 17-41 GB)", SPL,
      "structure encoded in the name: block pages, blob page, part page, index count, pages per entry; entry lengths symbolic within their last page",
      quick=False, tq=900, tt=3000, stubs=STORAGE_STUBS[:5] + HEAD + [STORAGE_STUBS[-1]], exp=True)
LITE_FUNCS = "Splitter::{split,split_blob,split_block,seal_blob}, BlobIndex::{write,reset,is_full,capacity}, BufferEntryInfo::aligned, IoSlice::slice (BlobIndex::seal stubbed: page content is not examined)"
LITE_QUICK = {"c07_lite_b4_s0_1_0", "c07_lite_b4_s0_2_1", "c07_lite_b4_n2_fresh_12", "c07_lite_b4_n2_cont_11", "c07_lite_b256_c169_n1", "c07_lite_b256_c168_n2"}
for nm in ['c07_lite_b4_s0_1_0', 'c07_lite_b4_s1_1_0', 'c07_lite_b4_s2_1_0', 'c07_lite_b4_s3_1_0', 'c07_lite_b4_s4_1_0', 'c07_lite_b4_s0_2_1', 'c07_lite_b4_s0_3_1', 'c07_lite_b4_s0_3_2', 'c07_lite_b4_s0_4_1', 'c07_lite_b4_s0_4_3', 'c07_lite_b4_s1_2_1', 'c07_lite_b4_s1_3_2', 'c07_lite_b4_s2_2_1', 'c07_lite_b4_n2_fresh_11', 'c07_lite_b4_n2_fresh_12', 'c07_lite_b4_n2_cont_11', 'c07_lite_b4_n2_cont_21', 'c07_lite_b4_n3_fresh_111', 'c07_lite_b256_c169_n1', 'c07_lite_b256_c168_n2', 'c07_lite_b256_c100_n2', 'c07_lite_b256_near_end']:
    h("C07", "foyer-storage", BUF, nm, "W1-lite: split context after a batch == layout rules; invariant preserved", LITE_FUNCS,
      "literal structure encoded in the name (block pages; blob page, part page, index count of the pre-state; pages per entry, or all of 1/2/3 pages for *_sB_P_C); entry lengths symbolic within their last page",
      quick=nm in LITE_QUICK, tq=600, tt=1800, unwind=10, stubs=STORAGE_STUBS[:5] + HEAD + [STORAGE_STUBS[-1], "BlobIndex::seal -> fresh page (no checksum, no copy)"])
for nm in ['c07_lite_b4_n2_fresh_22', 'c07_lite_b4_n2_fresh_31', 'c07_lite_b4_n2_mid_11', 'c07_lite_b4_n3_fresh_121', 'c07_lite_b256_c169_n2', 'c07_lite_b256_c168_n3']:
    h("C07", "foyer-storage", BUF, nm, "W1-lite (mid-batch block split with a non-empty part: CBMC reports an unwinding failure of Splitter::split's loop at any bound although the same structure terminates natively)", LITE_FUNCS,
      "literal structure encoded in the name", quick=False, tq=600, tt=1800, unwind=10, exp=True)
h("C07", "foyer-storage", BUF, "c07_w1_inv_init", "W1 base case: SplitCtx::new satisfies the invariant", "SplitCtx::new", "block 16 KiB, index 4 KiB", quick=True, tq=300, exp=True)
h("C07", "foyer-storage", BUF, "c07_w4_index_slots", "W4 index slot addressing at the boundary counts", "BlobIndex::{write,is_full,capacity}, BlobEntryIndex::{write,read}",
  "count in {0,1,168,169,170}; slot contents symbolic", quick=True, tq=300, exp=True)
h("C08", "foyer-storage", BUF, "c07_w3_push_slice", "R3b Buffer::push_slice bookkeeping: an entry that does not fit is rejected as a whole", "Buffer::push_slice, bits::align_up",
  "4-page buffer, 3 pushes with symbolic lengths 1..=12 KiB, max_entry_size symbolic 1..4 pages", quick=True, tq=600)
for n in (0, 2):
    h("C03", "foyer-storage", BUF, f"c03_d3a_index_flip_{n}", "D3a sealed blob index page with one damaged byte", "BlobIndex::{write,seal}, BlobIndexReader::read",
      f"{n} entries (symbolic), one symbolic byte among the stored checksum / count / first slot replaced by a symbolic different value", quick=(n == 0), tq=600, exp=(n == 2),
      stubs=STORAGE_STUBS[:5] + HEAD + [STORAGE_STUBS[-1]])
h("C03", "foyer-storage", BUF, "c03_d3b_index_arbitrary", "D3b arbitrary page with wrong checksum", "BlobIndexReader::read",
  "first 40 bytes symbolic (stored checksum, count, first slot), rest unconstrained; checksum comparison constrained to mismatch", quick=True, tq=300,
  stubs=STORAGE_STUBS[:5] + HEAD + [STORAGE_STUBS[-1]])

RC = "engine::block::recover::verif_kani"
RCF = "BlockRecoverRunner::run, BlockScanner::{new,next}, BlobIndexReader::read, Block::read over a harness IoEngine / Partition (4-page block)"
h("C03", "foyer-storage", RC, "c03_d5a_scan_then_garbage", "D5a scan stops at the first damaged page; read errors (Quiet/Strict)", RCF,
  "blob of 2 entries written by the real index writer (hashes, sequences symbolic), followed by a page of arbitrary bytes with non-matching checksum; optional read error at read 0 or 1; both recovery modes",
  quick=False, tq=900, tt=3000, fs=4100, extra_props=["C07"], stubs=STORAGE_STUBS[:5] + HEAD + [STORAGE_STUBS[-1]], exp=True)
h("C03", "foyer-storage", RC, "c03_d5b_damaged_index", "D5b damaged blob index page yields nothing", RCF,
  "index page of 2 entries with one symbolic byte (of the first 40) replaced by a symbolic different value", quick=False, tq=900, tt=3000, fs=4100,
  stubs=STORAGE_STUBS[:5] + HEAD + [STORAGE_STUBS[-1]], exp=True)
h("C03", "foyer-storage", RC, "c03_d5c_stale_second_blob", "D5c stale generation behind a newer blob is not recovered", RCF,
  "two one-entry blobs in one block, sequences symbolic (regressing or continuing)", quick=False, tq=900, tt=3000, fs=4100, extra_props=["C07"],
  stubs=STORAGE_STUBS[:5] + HEAD + [STORAGE_STUBS[-1]], exp=True)
ST = "store::verif_kani"
STF = "Store::{load,enqueue,delete}, Keeper::{insert,get}, PieceRef::drop over a harness `Engine` (answers arbitrary decoded (key,value) / miss / throttled / error)"
for nm, kind, q in (("c01_store_load_disk_entry", "Entry(any key, any value)", True), ("c01_store_load_disk_miss", "Miss", False),
                    ("c01_store_load_disk_throttled", "Throttled", False), ("c01_store_load_disk_error", "device error", True)):
    h("C01", "foyer-storage", ST, nm, "L1 decoded-key comparison / result mapping on disk answers", STF, f"requested key symbolic u64; engine answer: {kind} (contents symbolic)",
      quick=q, tq=600, tt=1800, unwind=6, miri=True, extra_props=["C17", "C03"], exp=True)
for nm, what, q in (("c01_store_load_queue_first_same", "queued 16, lookup 16", True), ("c01_store_load_queue_first_twin", "queued 16, lookup 17 (identical hash), disk answers Entry(any,any)", True),
                    ("c01_store_load_queue_first_twin_miss", "queued 17, lookup 16, disk misses", False), ("c01_store_load_queue_first_other", "queued 16, lookup 32", False)):
    h("C01", "foyer-storage", ST, nm, "L2 write queue consulted first; colliding twin not aliased", STF, what + "; queued value symbolic", quick=q, tq=600, tt=1800, unwind=6, miri=True, extra_props=["C17"], exp=True)
for nm, what, q in (("c12_store_enqueue_admit", "filter admits", True), ("c12_store_enqueue_reject", "filter rejects", True), ("c12_store_enqueue_throttled", "filter throttles", True),
                    ("c12_store_enqueue_forced_reject", "forced although the filter rejects", True)):
    h("C12", "foyer-storage", ST, nm, "E1 admission decision of Store::enqueue", STF, what + "; key 16 (literal), value symbolic", quick=q, tq=600, tt=1800, unwind=6, miri=True,
      exp=(nm in ("c12_store_enqueue_admit", "c12_store_enqueue_forced_reject")),
      stubs=(STORAGE_STUBS + ["Keeper::insert -> panic (the write queue must not be reached on the reject / throttle path; reaching it is the reported failure)"]) if nm in ("c12_store_enqueue_reject", "c12_store_enqueue_throttled") else None)
TB = "engine::block::tombstone::verif_kani"
TF = "TombstoneLog::{open,append,calculate_slot_addr,slot_addr}, Tombstone::{read,write}, PageBuffer::{open,update,load,flush,locate} on a harness IoEngine/Partition over a byte array"
h("C10", "foyer-storage", TB, "c10_t4_slot_addr", "T4 slot arithmetic", "TombstoneLog::calculate_slot_addr", "pages 1..=2^20, slot < 2^40 (symbolic)", quick=True, tq=300, exp=True)
for nm, pp, newest, q in (("c10_t1_open_p0_s5", "2 pages, 1 partition", 5, False), ("c10_t1_open_p0_s255", "2 pages, 1 partition", 255, False),
                          ("c10_t1_open_p1_s256", "2 pages, 1 partition", 256, True), ("c10_t1_open_p1_s300", "2 pages, 1 partition", 300, False),
                          ("c10_t1_open_p2_s600", "3 pages, 1 partition", 600, False), ("c10_t1_open_2parts_s300", "2 partitions of 1 page", 300, True)):
    h("C10", "foyer-storage", TB, nm, "T1 tail location after reopen", TF, f"{pp}; newest tombstone at global slot {newest} (hash, sequence symbolic), one older tombstone", quick=q, tq=600, unwind=260, fs=4100, rv=False, exp=True)
for nm, newest, q in (("c10_t3_cycle_p0_s9", 9, False), ("c10_t3_cycle_p0_s255", 255, True), ("c10_t3_cycle_p1_s300", 300, True)):
    h("C10", "foyer-storage", TB, nm, "T2+T3 open -> append -> reopen", TF, f"2 pages; newest tombstone at slot {newest}; one appended tombstone (symbolic)", quick=q, tq=600, unwind=260, fs=4100, rv=False, exp=True)
for nm, pg, n, tail, q in (("c10_t2_append_2_at255", 2, 2, 255, True), ("c10_t2_append_3_at254", 2, 3, 254, False), ("c10_t2_append_3_at255", 2, 3, 255, True),
                           ("c10_t2_append_2_at256", 2, 2, 256, False), ("c10_t2_append_2_at511_wrap", 2, 2, 511, True), ("c10_t2_append_1_at700", 3, 1, 700, False)):
    h("C10", "foyer-storage", TB, nm, "T2 append addressing / page switch / wrap-around on the device image", TF,
      f"{pg}-page log, tail slot {tail} (concrete), batch of {n} symbolic tombstones; every other slot checked untouched (symbolic slot)", quick=q, tq=600, unwind=8, fs=4100, rv=False, exp=True)
h("C03", "foyer-storage", TB, "c03_d4_tombstone_read", "D4 Tombstone::read on arbitrary bytes", "Tombstone::{read,write}", "all 2^128 inputs", quick=True, tq=300)

OUTSIDE = {
    "C01": ["Store::load lookup order and key comparison, BlockEngine enqueue/load/delete, flusher ordering, reclaim, recovery merge, close+reopen (all behind tokio Spawner)",
            "disk Indexer sequence guard (std HashMap = SSE2 hashbrown inside prebuilt std: out of CBMC's reach)", "compression, value sizes beyond the entry limit"],
    "C03": ["a forged checksum that matches damaged bytes (64-bit xxhash collision; checksum is stubbed)", "Zstd/Lz4 payloads",
            "Store::load key comparison and error->miss mapping (needs tokio Spawner)", "reopen orchestration (RecoverRunner)"],
    "C05": ["resize (thread::spawn: kani-compiler ICE)", "more than one shard in the step harnesses (A4 covers the cross-shard arithmetic)", "LFU and S3-FIFO instantiations of the RawCache harnesses",
            "multi-threaded quiescence"],
    "C07": ["device image after real reclaim / reuse", "flusher counts > 1, the async write path", "runtime loadability of every indexed key (needs the engine)", "blob index sizes other than one page"],
    "C08": ["Zstd and Lz4 (C FFI, not executable by Kani)", "the serde feature's bincode path", "payloads longer than 8 bytes (page / buffer boundary sizes)",
            "multi-byte UTF-8 strings (symbolically); HybridCache::get after eviction to disk"],
    "C10": ["recovery letting the tombstone suppress the entry (RecoverRunner::run, behind Spawner)", "flusher appending in the same io task", "HybridCache::get/contains after reopen",
            "logs larger than 3 pages (arithmetic is page-uniform: stated, not proved)"],
    "C11": ["the hybrid variant through the real Store", "RawFetch::poll schedule (X2) unless listed in samples", "SSE2 hashbrown groups (portable groups are what is encoded)"],
    "C12": ["HybridCachePipe::send, HybridCache::insert*, HybridGetOrFetch::poll (need a Store, i.e. tokio)", "device write counts", "policies, close, admission filters"],
    "C13": ["resize", "multi-threaded runs", "LFU / S3-FIFO instantiations"],
    "C14": ["S3-FIFO and w-TinyLFU unless listed in samples", "the count-min sketch's accuracy", "more than 3 records / 5 operations"],
    "C16": ["deadlocks that need two threads (lock-order inversions)", "hybrid cache, keeper, block manager locks"],
    "C17": ["disk tier key comparison in Store::load", "recovery", "SSE2 hashbrown groups"],
    "C18": ["cross-thread races between dec_refs and the shard lock", "resize"],
}
ASSUMPTIONS = {
    "C08": ["payload lengths are concrete per harness (0..=8), contents symbolic"],
    "C03": ["buffer lengths are concrete per harness, contents symbolic"],
    "C07": ["split context pre-states are constrained by the representation invariant `inv`, which is asserted on SplitCtx::new and on every post-state (induction over batches)"],
    "C05": ["pre-states are built through the real API; operations are single steps from them"],
    "C10": ["device image: zero-filled except the listed tombstones; positions concrete per harness, contents symbolic"],
}
