// (empty) filled by bin/check with the generated concrete-playback test during a replay, emptied afterwards
