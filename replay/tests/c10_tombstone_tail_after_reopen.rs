//! Native reproduction (public API) of the C10 finding: after reopening a store whose newest tombstone lies beyond the
//! first page of the tombstone log, the append position must be the slot after that tombstone.  If it is computed
//! relative to page 0, the next flushed delete overwrites a live older tombstone and a deleted key reads as present
//! again after one more restart.
use foyer::{
    BlockEngineConfig, DeviceBuilder, FsDeviceBuilder, HybridCache, HybridCacheBuilder, HybridCachePolicy, PsyncIoEngineConfig,
};

const KB: usize = 1024;
const MB: usize = 1024 * 1024;

async fn open(dir: &std::path::Path) -> HybridCache<u64, Vec<u8>> {
    // 4 MiB device = 1024 pages -> the tombstone log has 4 pages (1024 slots)
    let device = FsDeviceBuilder::new(dir).with_capacity(4 * MB).build().unwrap();
    HybridCacheBuilder::new()
        .with_name("c10")
        .with_policy(HybridCachePolicy::WriteOnInsertion)
        .memory(64 * KB)
        .with_shards(1)
        .storage()
        .with_io_engine_config(PsyncIoEngineConfig::new())
        .with_engine_config(BlockEngineConfig::new(device).with_block_size(256 * KB).with_tombstone_log(true))
        .build()
        .await
        .unwrap()
}

#[tokio::test(flavor = "multi_thread", worker_threads = 2)]
async fn delete_logged_before_a_page_crossing_survives_restarts() {
    let dir = tempfile::tempdir().unwrap();
    // keys 40..=50 have copies on disk; their tombstones will sit in global slots 40..=50 (page 0)
    let victims = 40u64..=50;

    let hybrid = open(dir.path()).await;
    for v in victims.clone() {
        hybrid.insert(v, vec![v as u8; 3 * KB]);
    }
    hybrid.storage().wait().await;
    // 300 flushed deletes: slots 0..299; the newest tombstone is in page 1 (slot 299)
    for k in 0..300u64 {
        hybrid.remove(&k);
        hybrid.storage().wait().await;
    }
    for v in victims.clone() {
        assert!(hybrid.get(&v).await.unwrap().is_none(), "deleted key must read as absent");
    }
    hybrid.close().await.unwrap();
    drop(hybrid);

    // restart 1: one more flushed delete of an unrelated key
    let hybrid = open(dir.path()).await;
    for v in victims.clone() {
        assert!(hybrid.get(&v).await.unwrap().is_none(), "deleted key must read as absent after the first restart");
    }
    hybrid.remove(&100_000u64);
    hybrid.storage().wait().await;
    hybrid.close().await.unwrap();
    drop(hybrid);

    // restart 2: the victim's tombstone must still be there
    let hybrid = open(dir.path()).await;
    for v in victims.clone() {
        let got = hybrid.get(&v).await.unwrap();
        assert!(
            got.is_none(),
            "C10: the flushed delete of key {v} was lost after restarts (its tombstone was overwritten because the log tail was misplaced)"
        );
    }
    hybrid.close().await.unwrap();
}
