//! Native reproduction (public API) of the C11 finding: an explicit insert completed while a fetch for the key is
//! pending must not be overwritten by the late fetch result.
use std::time::Duration;

use foyer::{Cache, CacheBuilder};

#[tokio::test(flavor = "multi_thread", worker_threads = 2)]
async fn insert_during_fetch_is_not_overwritten() {
    let cache: Cache<u64, u64> = CacheBuilder::new(16).with_shards(1).build();
    let (tx, rx) = tokio::sync::oneshot::channel::<u64>();
    let fut = cache.get_or_fetch(&1, || async move { Ok::<u64, anyhow::Error>(rx.await.unwrap()) });
    // let the fetch task start and block on its origin
    tokio::time::sleep(Duration::from_millis(50)).await;
    cache.insert(1, 42);
    let got = fut.await.unwrap();
    assert_eq!(*got.value(), 42, "waiter of the pending fetch must receive the inserted value");
    // the origin answers late with an older value
    tx.send(7).ok();
    tokio::time::sleep(Duration::from_millis(100)).await;
    let now = cache.get(&1).expect("key must be cached");
    assert_eq!(*now.value(), 42, "late fetch result replaced the explicitly inserted value");
}
