//! Native reproduction (public API) of the C01 finding in the disk write queue ("keeper"): version 1 of a key is being
//! written; version 2 is enqueued meanwhile; when the write of version 1 completes the write-queue entry of the KEY is
//! removed (it is version 2's), so until version 2 reaches the disk a lookup misses the queue and is served version 1
//! from disk - an older version than the most recent completed insert.
//!
//! The window is the duration of one flush; the test repeats the schedule over many keys and polls the disk tier.
use std::time::{Duration, Instant};

use foyer::{
    BlockEngineConfig, DeviceBuilder, FsDeviceBuilder, HybridCache, HybridCacheBuilder, HybridCachePolicy, Load, PsyncIoEngineConfig,
};

const KB: usize = 1024;
const MB: usize = 1024 * 1024;

fn val(k: u64, version: u8) -> Vec<u8> {
    let mut v = vec![version; 3 * KB];
    v[..8].copy_from_slice(&k.to_le_bytes());
    v
}

#[tokio::test(flavor = "multi_thread", worker_threads = 4)]
async fn newest_queued_version_is_never_shadowed_by_an_older_disk_copy() {
    let dir = tempfile::tempdir().unwrap();
    let device = FsDeviceBuilder::new(dir.path()).with_capacity(64 * MB).build().unwrap();
    let hybrid: HybridCache<u64, Vec<u8>> = HybridCacheBuilder::new()
        .with_name("c01")
        .with_policy(HybridCachePolicy::WriteOnInsertion)
        .memory(MB)
        .with_shards(1)
        .storage()
        .with_io_engine_config(PsyncIoEngineConfig::new())
        .with_engine_config(BlockEngineConfig::new(device).with_block_size(MB).with_flushers(1))
        .build()
        .await
        .unwrap();

    let mut stale = vec![];
    for k in 0..400u64 {
        hybrid.insert(k, val(k, 1));
        // give the flusher time to pick version 1 up and start writing it
        tokio::time::sleep(Duration::from_micros(150)).await;
        hybrid.insert(k, val(k, 2));
        // from here on the most recent completed insert is version 2: the disk tier must answer 2 (queue or disk) or miss
        let t0 = Instant::now();
        while t0.elapsed() < Duration::from_millis(20) {
            match hybrid.storage().load(&k).await.unwrap() {
                Load::Entry { value, .. } => {
                    if value[8] == 1 {
                        stale.push(k);
                        break;
                    }
                    if value[8] == 2 {
                        break; // version 2 is on disk
                    }
                }
                Load::Piece { piece, .. } => assert_eq!(piece.value()[8], 2, "write queue served an older version"),
                _ => {}
            }
        }
    }
    hybrid.close().await.unwrap();
    assert!(
        stale.is_empty(),
        "C01: the disk tier served version 1 after insert(version 2) had returned, for keys {stale:?} (write-queue entry of the newer version was dropped when the older write completed)"
    );
}
