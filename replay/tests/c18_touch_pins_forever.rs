//! Native reproduction (public API) of the C18 / C05 finding: `touch` under LRU acquires (pins) the entry and counts a
//! reference for a handle that is never created, so the entry stays unevictable forever; with no handle outstanding the
//! next inserts cannot bring the cache back within its capacity.
use foyer::{Cache, CacheBuilder, EvictionConfig, LruConfig};

#[test]
fn touched_entries_remain_evictable() {
    let cache: Cache<u64, u64> = CacheBuilder::new(2)
        .with_shards(1)
        .with_eviction_config(EvictionConfig::Lru(LruConfig { high_priority_pool_ratio: 0.5 }))
        .build();
    cache.insert(1, 1);
    cache.insert(2, 2);
    assert!(cache.touch(&1));
    assert!(cache.touch(&2));
    // no handle is outstanding
    cache.insert(3, 3);
    assert!(cache.usage() <= 2, "C18/C05: usage {} exceeds capacity 2 although no handle is outstanding (touched entries stay pinned)", cache.usage());
    cache.insert(4, 4);
    cache.insert(5, 5);
    assert!(cache.usage() <= 2, "C18/C05: usage {} exceeds capacity 2", cache.usage());
}
