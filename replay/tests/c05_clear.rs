//! Native reproduction (public API) of the C05-A3 finding: `clear()` must leave `usage() == 0`.
use foyer::{Cache, CacheBuilder};

#[test]
fn clear_resets_usage_and_next_inserts_are_not_evicted() {
    let cache: Cache<u64, u64> = CacheBuilder::new(4).with_shards(1).with_weighter(|_, v| *v as usize).build();
    cache.insert(1, 2);
    cache.insert(2, 2);
    assert_eq!(cache.usage(), 4);
    cache.clear();
    assert_eq!(cache.usage(), 0, "usage() after clear()");
    cache.insert(3, 2);
    cache.insert(4, 2);
    assert!(cache.contains(&3) && cache.contains(&4), "entries inserted after clear() were evicted although the cache was empty");
    assert_eq!(cache.usage(), 4);
}
