// native replay / reproduction tests live in tests/
